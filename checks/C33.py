from modindex_common import *

META = {
    "category": "proof",
    "text": 'Theorems about the Gallina transcription of LuaModuleIndex (node tree with parent pointers and an id counter, file map, fuzzy-name map; add_module_by_module_path, remove, clear, set_module_visibility, find_module = exact -> moduleMap -> fuzzy with its tie-break) for EVERY configuration and EVERY add/remove/hide/clear history: the index answers exactly like an abstract resolver over the finite ordered set of (file, module path) pairs (find_refines_spec), an exact match always wins over a fuzzy one, the fuzzy choice is a function of the live set only, and a removed file is never an answer. Pattern extraction (sort by length, `?` capture, workspace roots, shortest path, library preference) is transcribed and tied by correspondence. The tie drives the real index with generated op sequences and compares its canonical dump, sizes and answers with the model after every op; the property is searched end-to-end through EmmyLuaAnalysis.',
    "note": 'Trusted: Coq kernel; the hand model (validated by exact correspondence on sampled op sequences, not proved equal to the Rust). moduleMap regexes are opaque rewrite functions (any function); module patterns are restricted to the single-`?` shape; paths are lists of normalised components. Axioms: none.',
    "technique": "Coq refinement proof (invariant over all histories, ghost address function) about a hand-written Gallina transcription + exact model-vs-implementation correspondence + end-to-end oracle search",
}

THEOREMS = [("find_refines_spec", "theorem"), ("exact_before_fuzzy", "theorem"), ("fuzzy_choice_deterministic", "theorem"),
            ("removed_unresolvable", "theorem"), ("module_sizes_spec", "theorem"), ("refinement_example", "example")]
TRUSTED = [
    "Coq 8.16.1 kernel (coqc), vm_compute used in Examples and in the correspondence evaluation; no native_compute",
    "axioms: none (Print Assumptions: Closed under the global context for every theorem)",
    "hand-written model coq/theories/C33/Model.v of crates/emmylua_code_analysis/src/db_index/module/{mod,module_node,module_info,workspace}.rs; "
    "tied by the correspondence check (harness vh_analysis/src/bin/c33.rs + coq/theories/C33/Corr.v, canonical dumps through hook H2)",
    "modelling assumptions: a String is the list of its chars; hashbrown maps are association lists (no use depends on iteration order); "
    "ids are unbounded N (Rust u32); moduleMap rewrites are an arbitrary function; patterns have exactly one `?`; absolute normalised paths",
    "search oracle: independent statement of the property inside the harness (candidate names by prefix/suffix matching, exact/fuzzy admissibility)",
]
SIGS = None  # every signature of the c33 search belongs to C33


def search(ck, binpath, n):
    corpus = os.path.join(VERIF, "corpus", "C33")
    rc, out, err = ck.run_bin(binpath, ["search", "--seed", ck.seed, "--n", n, "--corpus", corpus])
    if rc != 0:
        ck.tie_broken("harness c33 search failed", err[-2000:])
        return
    for l in jlines(out):
        if not l.strip():
            continue
        v = json.loads(l)
        if "summary" in v:
            ck.cov["distribution"]["search"] = v["summary"]
            ck.add_measured(v["summary"]["require_checks"], v["summary"]["distinct_nontrivial"])
            continue
        ck.violation(v["signature"], v["what"], {"case": v["case"], "what": v["what"]})


def replay(ck, binpath, path):
    data = json.load(open(path))
    for v in data.get("violations", []):
        case = v["case"].get("case")
        if case is None:
            continue
        rc, out, err = ck.run_bin(binpath, ["one", "--case-json", json.dumps(case)])
        for l in jlines(out):
            vv = json.loads(l)
            ck.violation(vv["signature"], vv["what"], {"case": case, "what": vv["what"]})


def main(argv):
    ck = Check("C33", argv)
    bins = ck.build_harness("vh_analysis", ["c33"])
    if ck.replay and bins:
        replay(ck, bins["c33"], ck.replay)
        ck.finish(trusted_base=TRUSTED)
    ok = ck.coq_make(["theories/C33/Props.vo", "theories/C33/Corr.vo"])
    if ok:
        ck.coq_gates(["Base", "C33"], THEOREMS, "EV.C33.Props")
    if bins:
        if ok or os.path.exists(os.path.join(COQ, "theories/C33/Corr.vo")):
            module_correspondence(ck, bins["c33"], ck.scale(200, 4000))
        if ck.broken:
            ck.deep = True
        search(ck, bins["c33"], ck.scale(1200, 40000))
    ck.finish(
        trusted_base=TRUSTED,
        rule="correspondence: op sequences (add by path / add by module path / remove / hide / clear / find, 4-17 ops, 2-6 files) over 8 pattern sets x "
             "7 moduleMap sets x 7 workspace layouts (nested library root, package imports, file roots) x fuzzy on/off; non-trivial = contains an add and a remove; "
             "search: generated workspaces (2-6 module files, 3-7 require strings derived from the live module names: exact, suffixes, `/` separators, prefixed) "
             "with add / batch add / remove / reindex histories through EmmyLuaAnalysis; non-trivial = at least one require resolves; distinct by case",
        assumptions=["correspondence and search are sampled (they validate the model and look for replays; the theorems carry the all-histories claim)",
                     "configuration is fixed during a history (config changes are followed by a reindex in the server)"])
