"""C34 — file paths and file URIs convert back and forth without loss; alternative encodings name the same file.

Machinery: coq/theories/C34/{Model,Proofs,Props,Corr}.v (+ Base/Utf8.v, Base/Utf8Facts.v, Gen/C34_EscapeSet.v),
harness/vh_analysis/src/bin/c34.rs, corpus/C34/witnesses.json.
"""
import glob
import json
import re
from vcheck import *

META = {
    "category": "proof",
    "text": "Theorems about a Gallina transcription of file_path_to_uri / uri_to_file_path (url::Url::from_file_path on Unix, the WHATWG "
            "path state of url::Url::parse for file URLs, percent_encoding's encoder and decoder, strict UTF-8) and of the Vfs file-id "
            "table, for ALL normalised absolute Unix paths over all Unicode scalar values: path -> uri -> path is the identity; every "
            "alternative percent-encoding of a path (any byte escaped or not, hex digits in either case, non-ASCII literal or escaped) "
            "decodes to that path; URIs whose decoded paths agree get the same FileId, now and after any later file_id calls. "
            "The percent-encode sets are regenerated from the url / percent-encoding crate sources on every run and the theorems "
            "re-checked against them; the model is compared with the implementation on generated paths, URI strings and Vfs "
            "sequences; the property itself is searched on the implementation.",
    "note": "Trusted: Coq kernel; the hand model of the url 2.5.8 / percent-encoding 2.3.2 / std::path code paths (validated by "
            "correspondence, not proved equal to the Rust); the table translator. URI strings with a host, a raw tab/LF/CR or a "
            "non-file scheme are outside the model (reported as unmodelled, still searched on the implementation). Windows drive and "
            "UNC handling is cfg(windows) code that does not exist in a Unix build: out of scope on this sandbox. Axioms: none.",
    "technique": "Coq proof (induction over components / encodings / op sequences) about a hand-written Gallina transcription + "
                 "table translator + exact model-vs-implementation correspondence + oracle search",
}

THEOREMS = [
    ("path_uri_roundtrip", "theorem"),
    ("any_encoding_decodes", "theorem"),
    ("encodings_same_file", "theorem"),
    ("same_decoding_same_file", "theorem"),
    ("file_id_stable", "theorem"),
    ("utf8_roundtrip", "theorem"),
    ("percent_roundtrip", "theorem"),
    ("roundtrip_example", "example"),
    ("encodings_example", "example"),
]

TRUSTED = [
    "Coq 8.16.1 kernel (coqc); vm_compute only in Examples, in finite checks over the generated 128-entry escape tables, and in the "
    "correspondence evaluation; no native_compute",
    "axioms: none (Print Assumptions: Closed under the global context for every theorem)",
    "hand-written model coq/theories/C34/Model.v of crates/emmylua_code_analysis/src/vfs/file_uri_handler.rs and the file-id part of "
    "vfs/mod.rs, tied by the correspondence check (harness vh_analysis/src/bin/c34.rs + coq/theories/C34/Corr.v)",
    "external crates MODELLED, NOT VERIFIED: url 2.5.8 (Url::from_file_path / path_to_file_url_segments on Unix, Parser::parse_file, "
    "parse_path, shorten_path, pop_path, the windows-drive-letter quirks, Url::path), percent-encoding 2.3.2 (percent_encode, "
    "percent_decode, decode_utf8), emmy_lsp_types 0.1.0 (Uri = newtype of url::Url), std::path (Path::components on Unix, PathBuf "
    "equality/hash by components), std str::from_utf8",
    "translator checks/C34.py:gen_escape_set (regex over url/src/parser.rs and percent-encoding/src/ascii_set.rs; regenerates "
    "coq/theories/Gen/C34_EscapeSet.v; fails loudly when a constant's definition is missing or reshaped)",
    "modelling assumptions: a String is the list of its chars; paths are valid UTF-8 (non-UTF-8 OsStr paths cannot round-trip through "
    "decode_utf8 and are outside the property); HashMap<PathBuf,u32> behaves as an association list under PathBuf equality; "
    "file ids are unbounded N (Rust u32)",
    "search oracle: byte equality of the returned PathBuf with the input path; FileId equality in a real Vfs",
]

GEN = os.path.join(COQ, "theories", "Gen", "C34_EscapeSet.v")


def registry_dir(name, version):
    hits = sorted(glob.glob(os.path.expanduser("~/.cargo/registry/src/*/%s-%s" % (name, version))))
    return hits[0] if hits else None


def locked_version(name):
    txt = open(os.path.join(REPO, "Cargo.lock"), encoding="utf8").read()
    m = re.search(r'\[\[package\]\]\s*name = "%s"\s*version = "([^"]+)"' % re.escape(name), txt)
    return m.group(1) if m else None


def rust_byte_literal(s):
    """value of the inside of a b'..' literal"""
    if len(s) == 1:
        return ord(s)
    esc = {"\\\\": 92, "\\'": 39, "\\n": 10, "\\r": 13, "\\t": 9, "\\0": 0, '\\"': 34}
    if s in esc:
        return esc[s]
    m = re.fullmatch(r"\\x([0-9a-fA-F]{2})", s)
    if m:
        return int(m.group(1), 16)
    raise ValueError("byte literal %r" % s)


def strip_rust_comments(src):
    return re.sub(r"//[^\n]*", "", src)


def gen_escape_set(ck):
    """Regenerate Gen/C34_EscapeSet.v from the crate sources the current Cargo.lock selects. Returns True when written."""
    vu, vp = locked_version("url"), locked_version("percent-encoding")
    if not vu or not vp:
        ck.tie_broken("translator: url / percent-encoding not found in /repo/Cargo.lock", "%r %r" % (vu, vp))
        return False
    du, dp = registry_dir("url", vu), registry_dir("percent-encoding", vp)
    if not du or not dp:
        ck.tie_broken("translator: crate sources url-%s / percent-encoding-%s not in ~/.cargo/registry" % (vu, vp), "")
        return False
    parser = strip_rust_comments(open(os.path.join(du, "src", "parser.rs"), encoding="utf8").read())
    liburl = strip_rust_comments(open(os.path.join(du, "src", "lib.rs"), encoding="utf8").read())
    aset = strip_rust_comments(open(os.path.join(dp, "src", "ascii_set.rs"), encoding="utf8").read())
    libpe = strip_rust_comments(open(os.path.join(dp, "src", "lib.rs"), encoding="utf8").read())

    # --- CONTROLS: the bit mask literal
    m = re.search(r"pub const CONTROLS: &AsciiSet = &AsciiSet \{\s*mask: \[\s*!0_u32,\s*0,\s*0,\s*1 << \(0x7F_u32 % 32\),\s*\],\s*\};", aset)
    if not m:
        ck.tie_broken("translator: anchor `pub const CONTROLS` (percent-encoding ascii_set.rs) missing or reshaped", "")
        return False
    sets = {"CONTROLS": set(range(0, 32)) | {0x7F}}
    anchors = [
        (aset, r"fn should_percent_encode\(&self, byte: u8\) -> bool \{\s*!byte\.is_ascii\(\) \|\| self\.contains\(byte\)\s*\}",
         "AsciiSet::should_percent_encode = !is_ascii || contains"),
        (aset, r"const ASCII_RANGE_LEN: usize = 0x80;", "ASCII_RANGE_LEN = 0x80"),
        (libpe, r"let h = char::from\(\*cloned_iter\.next\(\)\?\)\.to_digit\(16\)\?;\s*let l = char::from\(\*cloned_iter\.next\(\)\?\)\.to_digit\(16\)\?;",
         "after_percent_sign reads two hex digits with to_digit(16)"),
        (libpe, r"after_percent_sign\(&mut self\.bytes\)\.unwrap_or\(byte\)", "PercentDecode passes a malformed % through"),
        (libpe, r"%00%01%02%03%04%05%06%07%08%09%0A%0B%0C%0D%0E%0F", "ENC_TABLE uses upper-case hex"),
        (liburl, r"serialization\.extend\(percent_encode\(\s*component\.as_os_str\(\)\.as_bytes\(\),\s*SPECIAL_PATH_SEGMENT,\s*\)\);",
         "path_to_file_url_segments (unix) encodes each component with SPECIAL_PATH_SEGMENT"),
        (liburl, r"for component in path\.components\(\)\.skip\(1\)", "path_to_file_url_segments iterates components().skip(1)"),
        (parser, r"serialization\.extend\(utf8_percent_encode\(text, PATH\)\);", "parse_path re-encodes pending text with PATH"),
        (parser, r'"\.\." \| "%2e%2e" \| "%2e%2E" \| "%2E%2e" \| "%2E%2E" \| "%2e\." \| "%2E\." \| "\.%2e"\s*\| "\.%2E" =>',
         "double-dot segment spellings"),
        (parser, r'"\." \| "%2e" \| "%2E" =>', "single-dot segment spellings"),
        (parser, r"segment_start == path_start \+ 1\s*&& is_windows_drive_letter\(segment_before_slash\)", "drive letter only at the first segment"),
        (parser, r"fn c0_control_or_space\(ch: char\) -> bool \{\s*ch <= ' '", "c0_control_or_space"),
    ]
    for src, pat, what in anchors:
        if not re.search(pat, src):
            ck.tie_broken("translator: anchor missing in the url / percent-encoding sources: %s" % what, pat)
            return False
    # --- the .add chains of url/src/parser.rs
    for m in re.finditer(r"const (\w+): &AsciiSet = &(\w+)((?:\s*\.add\(b'(?:\\.|[^'\\])'\))+);", parser):
        name, base, adds = m.group(1), m.group(2), m.group(3)
        if base not in sets:
            continue
        s = set(sets[base])
        for lit in re.findall(r"\.add\(b'((?:\\.|[^'\\]))'\)", adds):
            s.add(rust_byte_literal(lit))
        sets[name] = s
    for need in ("PATH", "SPECIAL_PATH_SEGMENT"):
        if need not in sets:
            ck.tie_broken("translator: anchor `const %s: &AsciiSet = &….add(b'…')…` missing in url-%s/src/parser.rs" % (need, vu), "")
            return False

    def lst(s):
        return "[" + "; ".join(str(x) for x in sorted(s)) + "]"

    body = """(** GENERATED by checks/C34.py (gen_escape_set) — do not edit.
    Source: url-%s/src/parser.rs (constants FRAGMENT, PATH, PATH_SEGMENT, SPECIAL_PATH_SEGMENT) and
    percent-encoding-%s/src/ascii_set.rs (CONTROLS), the versions pinned by /repo/Cargo.lock.
    An [AsciiSet] is listed as the sorted list of the ASCII bytes it contains; bytes >= 128 are always
    escaped ([AsciiSet::should_percent_encode]). *)
From Coq Require Import List NArith.
Import ListNotations.
Local Open Scope N_scope.

(** CONTROLS : C0 controls and DEL *)
Definition controls_set : list N := %s.

(** PATH : what [Parser::parse_path] escapes when it re-reads a path *)
Definition path_set : list N := %s.

(** SPECIAL_PATH_SEGMENT : what [Url::from_file_path] escapes in every component (Unix) *)
Definition special_path_segment_set : list N := %s.
""" % (vu, vp, lst(sets["CONTROLS"]), lst(sets["PATH"]), lst(sets["SPECIAL_PATH_SEGMENT"]))
    os.makedirs(os.path.dirname(GEN), exist_ok=True)
    old = open(GEN, encoding="utf8").read() if os.path.exists(GEN) else None
    if old != body:
        with open(GEN, "w", encoding="utf8") as fh:
            fh.write(body)
        ck.log("regenerated", os.path.relpath(GEN, VERIF), "(changed)" if old is not None else "(new)")
    ck.cov["table_obligations"].append({"table": "Gen/C34_EscapeSet.v", "source": "url-%s, percent-encoding-%s" % (vu, vp),
                                        "path_set": sorted(sets["PATH"]), "special_path_segment_set": sorted(sets["SPECIAL_PATH_SEGMENT"])})
    return True


REPO_ANCHORS = [
    ("crates/emmylua_code_analysis/src/vfs/file_uri_handler.rs", r"Url::from_file_path\(path\)\s*\.ok\(\)\s*\.and_then\(\|url\| Uri::from_str\(url\.as_str\(\)\)\.ok\(\)\)",
     "file_path_to_uri = Url::from_file_path then Uri::from_str(url.as_str())"),
    ("crates/emmylua_code_analysis/src/vfs/file_uri_handler.rs", r"let url = Url::parse\(uri\.as_str\(\)\)\.ok\(\)\?;\s*if url\.scheme\(\) != \"file\" \{\s*return None;\s*\}",
     "uri_to_file_path re-parses and requires the file scheme"),
    ("crates/emmylua_code_analysis/src/vfs/file_uri_handler.rs", r"percent_decode_str\(url\.path\(\)\)\s*\.decode_utf8\(\)\s*\.ok\(\)\?",
     "uri_to_file_path percent-decodes url.path() as UTF-8"),
    ("crates/emmylua_code_analysis/src/vfs/mod.rs", r"file_id_map: HashMap<PathBuf, u32>", "Vfs::file_id_map keyed by PathBuf"),
    ("crates/emmylua_code_analysis/src/vfs/mod.rs", r"if let Some\(&id\) = self\.file_id_map\.get\(&path\) \{\s*FileId \{ id \}\s*\} else \{\s*let id = self\.file_data\.len\(\) as u32;",
     "Vfs::file_id looks the decoded path up before allocating"),
]


def repo_anchors(ck):
    """cheap source anchors of the hand model (a rewrite of these functions must be re-modelled)"""
    for rel, pat, what in REPO_ANCHORS:
        p = os.path.join(REPO, rel)
        src = open(p, encoding="utf8").read() if os.path.exists(p) else ""
        if not re.search(pat, src):
            ck.tie_broken("model anchor missing in %s: %s (the code the model transcribes was rewritten)" % (rel, what), pat)


# ---------------------------------------------------------------- Coq terms

def opt_text(v):
    if v in ("N", "P", "B", "E"):
        return "None"
    return "(Some %s)" % coq_list([str(x) for x in v])


def case_to_coq(c):
    if c["k"] == "p":
        return "(CPath %s %s %s)" % (coq_list([str(x) for x in c["p"]]), opt_text(c["uri"]), opt_text(c["back"]))
    if c["k"] == "u":
        pr = c["parsed"]
        if pr in ("E", "P"):
            return "(CUri %s None false false %s)" % (coq_list([str(x) for x in c["u"]]), opt_text(c["back"]))
        return "(CUri %s (Some %s) %s %s %s)" % (coq_list([str(x) for x in c["u"]]), coq_list([str(x) for x in pr["path"]]),
                                                  "true" if pr["file"] else "false", "true" if pr["nohost"] else "false", opt_text(c["back"]))
    if c["k"] == "v":
        return "(CVfs %s %s %s)" % (coq_list([coq_list([str(x) for x in u]) for u in c["uris"]]),
                                    coq_list([str(i) for i in c["ids"]]),
                                    coq_list(["None" if g == "N" else "(Some %d)" % g for g in c["gets"]]))
    raise ValueError(c["k"])


def s_of(cps):
    return "".join(chr(x) for x in cps)


def describe(c):
    if c["k"] == "p":
        return "path %r -> uri %s -> back %s" % (s_of(c["p"]), c["uri"] if isinstance(c["uri"], str) else repr(s_of(c["uri"])),
                                                 c["back"] if isinstance(c["back"], str) else repr(s_of(c["back"])))
    if c["k"] == "u":
        return "uri string %r -> %s -> %s" % (s_of(c["u"]), c["parsed"] if isinstance(c["parsed"], str) else repr(s_of(c["parsed"]["path"])),
                                              c["back"] if isinstance(c["back"], str) else repr(s_of(c["back"])))
    return "vfs sequence %r -> ids %r gets %r" % ([s_of(u) for u in c["uris"]], c["ids"], c["gets"])


def nontrivial_case(c):
    if c["k"] == "p":
        return any(not (chr(x).isalnum() and x < 128) and x not in (47, 46, 95, 45) for x in c["p"])
    if c["k"] == "u":
        return 37 in c["u"] or any(x >= 128 for x in c["u"])
    return len(c["uris"]) >= 2


def correspondence(ck, binpath, n):
    rc, out, err = ck.run_bin(binpath, ["corr", "--seed", ck.seed, "--n", n, "--maxlen", 10], env_extra={"VERIF_ROOT": VERIF})
    if rc != 0:
        ck.tie_broken("harness c34 corr failed", (out[-500:] + err[-2000:]))
        return
    cases = [json.loads(l) for l in jlines(out) if l.strip()]
    for c in cases:
        if "panic" in c:
            ck.tie_broken("implementation panicked during a conversion: %s" % describe(c), c["panic"])
    terms = [case_to_coq(c) for c in cases]
    # one vm_compute per shard: indices of disagreements and of cases outside the model's domain
    # (hosts, raw tab/LF/CR, non-file schemes: accepted unchecked, but counted)
    nshard = min(NCPU, max(1, len(terms) // 120))
    idxs = [list(range(i, len(terms), nshard)) for i in range(nshard)]
    bodies = []
    for ids in idxs:
        b = "Local Open Scope N_scope.\nDefinition cases__ : list case := [\n" + ";\n".join(terms[i] for i in ids) + "].\n"
        b += ("Definition sel__ (f : case -> bool) := (fix go (cs : list case) (i : N) : list N := match cs with [] => [] | c :: r => "
              "if f c then go r (i + 1) else i :: go r (i + 1) end) cases__ 0.\n")
        b += "Eval vm_compute in (sel__ check_case, sel__ modelled_case).\n"
        bodies.append(b)
    results = ck.coq_eval_shards("corr", bodies, ["EV.C34.Model", "EV.C34.Corr"], timeout=1500)
    failing, un, bad = [], [], False
    for (rc, o), ids in zip(results, idxs):
        mm = re.search(r"=\s*\(\[(.*?)\],\s*\[(.*?)\]\)\s*:\s*list N \* list N", o, re.S) if rc == 0 else None
        if not mm:
            ck.tie_broken("correspondence evaluation did not compile/finish (C34/Model.v or Corr.v broken)", o[-3000:])
            bad = True
            continue
        failing += [ids[int(x)] for x in re.findall(r"\d+", mm.group(1))]
        un += [ids[int(x)] for x in re.findall(r"\d+", mm.group(2))]
    if not bad:
        ck.cov["traces_validated_against_impl"] += len(terms) - len(un)
    for i in sorted(failing)[:5]:
        ck.tie_broken("model/implementation disagreement: %s" % describe(cases[i]), json.dumps(cases[i])[:3000])
    if bad:
        un = None
    kinds = {"p": 0, "u": 0, "v": 0}
    for c in cases:
        kinds[c["k"]] += 1
        key = ("corr", c["k"], tuple(c["p"] if c["k"] == "p" else c["u"] if c["k"] == "u" else [tuple(u) for u in c["uris"]]))
        ck.count_case(key, nontrivial=nontrivial_case(c))
    ck.cov["distribution"]["corr"] = {"paths": kinds["p"], "uri_strings": kinds["u"], "vfs_sequences": kinds["v"],
                                      "outside_model_domain": (len(un) if un is not None else None)}
    if un is not None and len(un) > len(cases) // 4:
        ck.tie_broken("more than a quarter of the correspondence cases fall outside the model's domain", str(len(un)))
    for c in cases:
        if c["k"] == "p" and 37 in c["p"] and any(x >= 128 for x in c["p"]) and not isinstance(c["uri"], str):
            ck.sample({"kind": "correspondence: path -> uri -> path", "path": s_of(c["p"]), "uri": s_of(c["uri"]),
                       "back": c["back"] if isinstance(c["back"], str) else s_of(c["back"])})
            break
    for c in cases:
        if c["k"] == "v" and len(c["uris"]) >= 3 and len(set(c["ids"])) >= 2:
            ck.sample({"kind": "correspondence: Vfs::file_id sequence", "uris": [s_of(u) for u in c["uris"]], "ids": c["ids"]})
            break


def search(ck, binpath, n, maxlen, alts):
    rc, out, err = ck.run_bin(binpath, ["search", "--seed", ck.seed, "--n", n, "--maxlen", maxlen, "--alts", alts], env_extra={"VERIF_ROOT": VERIF})
    if rc != 0:
        ck.tie_broken("harness c34 search failed", (out[-500:] + err[-2000:]))
        return
    for l in jlines(out):
        if not l.strip():
            continue
        v = json.loads(l)
        if "summary" in v:
            ck.cov["distribution"]["search"] = v["summary"]
            ck.add_measured(v["summary"]["cases"] + v["summary"]["alternative_encodings"], v["summary"]["distinct_nontrivial"])
            continue
        ck.violation(v["signature"], v["what"], {"path": v["path"], "extra": v.get("extra")})


def replay(ck, binpath, path):
    data = json.load(open(path))
    for v in data.get("violations", []):
        p = v["case"].get("path")
        if p is None:
            continue
        rc, out, err = ck.run_bin(binpath, ["one", "--path-json", json.dumps(p), "--alts", 24], env_extra={"VERIF_ROOT": VERIF})
        for l in jlines(out)[1:]:
            vv = json.loads(l)
            ck.violation(vv["signature"], vv["what"], {"path": vv["path"], "extra": vv.get("extra")})
    if not data.get("violations"):
        ck.log("replay file has no concrete failing input; re-running the full check is the replay")


def main(argv):
    ck = Check("C34", argv)
    bins = ck.build_harness("vh_analysis", ["c34"])
    if ck.replay and bins:
        replay(ck, bins["c34"], ck.replay)
        ck.finish(trusted_base=TRUSTED)
    repo_anchors(ck)
    gen_ok = gen_escape_set(ck)
    ok = False
    if gen_ok or os.path.exists(GEN):
        ok = ck.coq_make(["theories/C34/Props.vo", "theories/C34/Corr.vo"])
    if ok:
        hits = section_aware_forbidden(GEN)
        if hits:
            ck.proof_broken("forbidden vernacular in the generated table file", json.dumps(hits[:10]))
        ck.coq_gates(["Base", "C34"], THEOREMS, "EV.C34.Props")
    if bins:
        if ok or os.path.exists(os.path.join(COQ, "theories/C34/Corr.vo")):
            correspondence(ck, bins["c34"], ck.scale(1500, 8000))
        if ck.broken:
            ck.deep = True
        search(ck, bins["c34"], ck.scale(20000, 400000), ck.scale(12, 24), ck.scale(6, 10))
    ck.finish(
        trusted_base=TRUSTED,
        rule="normalised absolute Unix paths of 0..20 components over ASCII names, every reserved/unsafe ASCII character, control "
             "characters, BMP and astral scalar values, literal names that look like escapes / dot segments / drive letters, trailing "
             "spaces, components up to several hundred bytes (12 component modes); per path: path->uri->path, Vfs::get_uri, and "
             "6-10 alternative encodings (all-escaped, minimal, ASCII-literal, over-escaped unreserved, random; upper/lower/mixed hex) "
             "through Vfs::get_file_id / file_id / set_file_content; the correspondence adds non-normalised paths, odd URI strings "
             "(dot segments, %2e, drive letters, backslashes, query/fragment, invalid UTF-8 escapes, one-slash forms) and Vfs "
             "sequences; non-trivial = the path contains a character other than [A-Za-z0-9._-/]; distinct by path",
        assumptions=["paths are valid UTF-8 and contain no NUL in the search (NUL cannot occur in a Unix file name)",
                     "Windows drive/UNC handling is cfg(windows) and is not compiled on this Unix sandbox: out of scope",
                     "correspondence and search are sampled (they validate the model and look for replays; the theorems carry the all-inputs claim)"])
