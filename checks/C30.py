import json
from vcheck import *
import c29_c30_anchors as A
from c28_locks import TranslateError as T_ERR

META = {
    "category": "proof",
    "text": 'The per-file diagnostic machinery (FileDiagnostic::add_diagnostic_task: token map, cancellation of the previous token, debounce '
            'timer, diagnosis of the text the analysis holds WHEN THE TASK RUNS and publish while the analysis read lock is held, the '
            'unconditional removal of the file\'s token; clear on close / delete; workspace-diagnostic publishes) is modelled in Coq as a '
            'labelled transition system interleaved with the inline edit / remove handlers, with the diagnosis function abstract. Theorem '
            'published_converge: for every diagnosis function, every history and EVERY interleaving (timer firing although cancelled, a '
            'cancelled task publishing or not, stale tasks), at quiescence the last published set of every file the analysis holds is the '
            'diagnosis of its current text and a removed file ends with an empty (or no) published set -- by the invariant "stale => the '
            'running handler or an uncancelled task of that file is pending"; published_terminates / published_progress: every step other than a workspace-diagnostic publish consumes a measure and one exists before quiescence, so every fair execution of a finite history reaches quiescence. token_removal_race_reachable shows that the unconditional '
            'remove really deletes a newer task\'s token in a reachable state; the convergence theorem shows it is harmless. The order the model depends on is re-read from the source on every run (every clear_push_file_diagnostics comes after the removal and nothing is removed after it; the task publishes under analysis.read()) and re-proved as obligations (C30/Today.v); clear_first_refuted shows what goes wrong otherwise. Generated '
            'histories (edits with gaps inside / around / beyond the debounce interval, close, watched-file delete and change, a reload; closing an unsaved 2000-line buffer while its calibrated diagnosis is in flight) '
            'are run against the real in-process server in push mode; at quiescence the last publishDiagnostics per uri is compared with a fresh diagnosis (textDocument/diagnostic pull) of the current content, and the MODEL is run on the same history (Corr.v: a deterministic schedule of the model\'s own steps, proved to be model steps by sched_sound) and the analysed text and last published set it predicts per uri are compared with the server\'s.',
    "note": 'Trusted: Coq kernel; the hand model of file_diagnostic.rs and of the handlers (validated by the quiescent correspondence on sampled '
            'schedules); diagnostics of one file are taken to depend on that file only (the generated documents are independent). Axioms: none.',
    "technique": "Coq proof (inductive invariant over all schedules of an LTS, abstract diagnosis function, reachability witness for the token race) "
                 "+ quiescent model-vs-implementation check and oracle search on the real in-process server with overlapping debounce windows",
}

THEOREMS = [("published_converge", "theorem"), ("stale_has_pending_task", "theorem"), ("published_terminates", "theorem"), ("published_progress", "theorem"), ("token_removal_race_reachable", "refutation"),
            ("clear_first_refuted", "refutation"), ("converge_example", "example")]
TODAY_THEOREMS = [("today_clear_after_remove", "table"), ("today_publish_under_read_lock", "table"), ("today_published_converge", "theorem")]
FACT_TEXT = {'clear_after_remove': 'a clear_push_file_diagnostics call is no longer the last thing after the removal from the analysis (a diagnosis in flight publishes after the clear: clear_first_refuted)', 'publish_under_read_lock': 'the diagnostic task no longer publishes while holding analysis.read()', 'token_removed_after_publish': 'the diagnostic task no longer removes its token after publishing'}
SIGS = {"stale-published", "never-published", "removed-not-cleared"}
TRUSTED = [
    "Coq 8.16.1 kernel (coqc); vm_compute only in the reachability witness, the Example and the correspondence evaluation",
    "axioms: none (Print Assumptions: Closed under the global context for every theorem)",
    "hand-written model coq/theories/C30/Model.v of context/file_diagnostic.rs (add_diagnostic_task and its spawned task, "
    "clear_push_file_diagnostics, workspace diagnostics) and of the sections of the didOpen/didChange/didClose/watched-files handlers that "
    "touch the analysis and the diagnostics; tied by the quiescent correspondence (harness vh_ls/src/bin/c30.rs + coq/theories/C30/Corr.v)",
    "modelling assumptions: a publish happens while analysis.read() is held, so it is atomic with reading the text and ordered with the "
    "writes (C28 lock model); the diagnosis of a file depends on that file's text only; timers eventually fire (quiescence is reached); "
    "document notifications are inline (C27)",
    "lexical anchors lib/c29_c30_anchors.py -> Gen/C30_Order.v (statement order clear-after-remove at every call site; publish under the read lock), re-proved in C30/Today.v",
    "oracle: `textDocument/diagnostic` (pull) answered by the same server at quiescence = a fresh diagnosis of the current content; "
    "hook (cfg-gated): verif_serve, verif/docState",
]


def to_case(c):
    """flatten the harness operations into the model's events (what each notification does to the analysed text of
    its uri, per the handlers' code) and encode the observations"""
    nd = len(c["docs"])
    kind = [d["kind"] for d in c["docs"]]
    opened, editor = set(), {}
    present = {i: kind[i] == "D" for i in range(nd)}
    events = []
    # a "reload" request takes effect after the server's 2 s debounce, i.e. later in (or after) the history:
    # re-order it to where it happens; histories where another operation falls within 400 ms of that moment
    # are ambiguous and are not compared (returns None)
    hist, clock, pending = [], 0, []
    for h in c["hist"]:
        while pending and clock >= pending[0] + 400:
            hist.append(["reload"])
            pending.pop(0)
        if pending and h[0] != "sleep" and abs(clock - pending[0]) < 400:
            return None
        if h[0] == "reload":
            pending.append(clock + 2000)
            continue
        if h[0] == "sleepcal":
            return None if pending else hist.append(h)
        if h[0] == "sleep":
            clock += h[1]
        else:
            clock += 2
        hist.append(h)
    hist += [["reload"]] * len(pending)
    for h in hist:
        op = h[0]
        d = (h[1] % nd) if len(h) > 1 and isinstance(h[1], int) and op not in ("sleep", "sleepcal") else None
        if op in ("open", "change", "openbig"):
            events.append("(true, %d, %d)" % (d, h[2]))
            opened.add(d)
            editor[d] = h[2]
            present[d] = True
        elif op == "close":
            opened.discard(d)
            if kind[d] == "D":
                if present[d]:
                    events.append("(true, %d, 0)" % d)      # the disk content again
            else:
                events.append("(false, %d, 0)" % d)          # not on disk: removed, diagnostics cleared
                present[d] = False
        elif op == "delete":
            events.append("(false, %d, 0)" % d)
            present[d] = False
        elif op == "touch":
            if d not in opened and kind[d] == "D":
                events.append("(true, %d, 0)" % d)
                present[d] = True
        elif op == "reload":
            for i in range(nd):
                if i in opened:
                    events.append("(true, %d, %d)" % (i, editor[i]))
                    present[i] = True
                elif kind[i] == "D":
                    events.append("(true, %d, 0)" % i)
                    present[i] = True
    obs = []
    for i, o in enumerate(c["obs"]):
        known = o["analysed"] is not None
        if o["published"] is None:
            pubc = 0
        elif o["same"]:
            pubc = 2
        elif o["published"] == 0:
            pubc = 1
        else:
            pubc = 3
        obs.append("{| o_uri := %d; o_known := %s; o_text := %d; o_pub := %d; o_fresh_empty := %s |}" % (
            i, "true" if known else "false", o["analysed"] if known else 0, pubc, "true" if (o["fresh"] == 0) else "false"))
    disk = [str(i) for i in range(nd) if kind[i] == "D"]
    return "{| c_disk := %s; c_events := %s; c_obs := %s |}" % (coq_list(disk), coq_list(events), coq_list(obs))


def run(ck, binpath, mode, n):
    corpus = os.path.join(VERIF, "corpus", "C30", "histories.jsonl")
    rc, out, err = ck.run_bin(binpath, [mode, "--seed", ck.seed + (0 if mode == "search" else 1000), "--n", n, "--dir", ck.work, "--corpus", corpus],
                              timeout=ck.scale(900, 3000))
    if rc != 0:
        ck.tie_broken("harness c30 %s failed (rc=%s)" % (mode, rc), (err or "")[-2000:])
        return []
    return [json.loads(l) for l in jlines(out) if l.strip().startswith("{")]


def main(argv):
    ck = Check("C30", argv)
    bins = ck.build_harness("vh_ls", ["c30"])
    if ck.replay and bins:
        data = json.load(open(ck.replay))
        for v in data.get("violations", []):
            c = v.get("case", {})
            rc, out, err = ck.run_bin(bins["c30"], ["one", "--case-json", json.dumps({"docs": c.get("docs", []), "hist": c.get("hist", [])}),
                                                    "--dir", ck.work, "--repeat", 5], timeout=900)
            for l in jlines(out):
                if l.strip().startswith("{") and '"signature"' in l:
                    vv = json.loads(l)
                    ck.violation(vv["signature"], vv["what"], vv["case"])
        ck.finish(trusted_base=TRUSTED)
    # facts of today's source that the model depends on (regenerated on every run)
    facts = None
    try:
        facts = A.c30_facts(REPO)
        A.write_c30(facts, os.path.join(COQ, "theories", "Gen", "C30_Order.v"), REPO)
        ck.cov["distribution"]["source_anchors"] = {k: v for k, v in facts.items() if isinstance(v, bool)}
        if "sites" in facts:
            ck.cov["distribution"]["clear_sites"] = ["%s:%d %s" % (q, l, "ok" if o else "BEFORE-REMOVAL") for q, l, o in facts["sites"]]
        for k, v in facts.items():
            if isinstance(v, bool):
                ck.cov["obligations"] += 1
                if v:
                    ck.cov["discharged"] += 1
                else:
                    ck.proof_broken("today's source breaks an assumption of the C30 model: " + FACT_TEXT.get(k, k), json.dumps(facts, default=str)[:2000])
    except (A.AnchorError, T_ERR) as ex:
        ck.tie_broken("source anchors of the C30 model not found: %s" % ex)
    ok = ck.coq_make(["theories/C30/Props.vo", "theories/C30/Corr.vo"])
    if ok:
        ck.coq_gates(["C30"], THEOREMS + [("sched_sound", "theorem"), ("run_model_reach", "theorem")], ["EV.C30.Props", "EV.C30.Corr"])
    if ok and facts is not None and ck.coq_make(["theories/C30/Today.vo"]):
        ck.coq_gates([], TODAY_THEOREMS, "EV.C30.Today")
    if bins:
        if ok or os.path.exists(os.path.join(COQ, "theories/C30/Corr.vo")):
            cases = [c for c in run(ck, bins["c30"], "corr", ck.scale(15, 60)) if "obs" in c]
            terms = [(c, to_case(c)) for c in cases]
            ck.cov["distribution"]["corr_ambiguous_reload_timing_skipped"] = sum(1 for _, t in terms if t is None)
            cases = [c for c, t in terms if t is not None]
            failing = ck.coq_failing("corr", [t for _, t in terms if t is not None], ["Coq.Lists.List", "Coq.NArith.NArith", "EV.C30.Model", "EV.C30.Corr"], case_type="case",
                                     prelude="Import ListNotations.")
            for i in failing or []:
                ck.tie_broken("model/implementation disagreement at quiescence (C30)", json.dumps(cases[i])[:3000])
            for c in cases:
                ck.count_case(("corr", json.dumps([c["docs"], c["hist"]])), nontrivial=sum(1 for h in c["hist"] if h[0] in ("open", "change")) >= 2)
            if cases:
                ck.sample({"kind": "correspondence case", "docs": cases[-1]["docs"], "hist": cases[-1]["hist"], "obs": cases[-1]["obs"]})
            ck.cov["distribution"]["corr_histories"] = len(cases)
        if ck.broken:
            ck.deep = True
        for v in run(ck, bins["c30"], "search", ck.scale(30, 250)):
            if "summary" in v:
                ck.cov["distribution"]["search"] = v["summary"]
                ck.add_measured(v["summary"]["histories"], v["summary"]["distinct_nontrivial"])
            elif v.get("signature") in SIGS:
                ck.violation(v["signature"], v["what"], v["case"])
    ck.finish(
        trusted_base=TRUSTED,
        rule="(a) an unsaved 2000-line buffer is opened and closed interval + D*f (f in 1/4..3/4, D = diagnosis time calibrated at start-up) after the open was applied, i.e. while its diagnosis is in flight; (b) histories over 1-3 fresh documents (on disk / virtual): 3-14 operations (open, change with texts whose diagnostics differ, close, "
             "watched-file delete, watched-file change, sometimes a reload request) separated by gaps of 0, 1-20, interval/2..interval, "
             "interval-10..interval+25, interval..2*interval ms (debounce interval 120 ms, set through .emmyrc.json); quiescence = 3 intervals + "
             "300 ms of silence; non-trivial = at least two edits; distinct by (docs, history)",
        assumptions=["the real schedule of a history is not controlled (gaps aimed at the debounce window); the all-schedules claim is carried by the theorem",
                     "generated documents do not depend on each other (cross-file diagnostics are outside the property's per-file statement)"])
