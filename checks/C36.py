import json
from vcheck import *

META = {
    "category": "proof",
    "text": "Theorems about a Gallina transcription of emmylua_check's result loop (output_result), severity filter, "
            "--warnings-as-errors and the three writers, for ALL per-file diagnostic lists, ALL option sets and ALL orders in which the "
            "spawned tasks' messages arrive: non-zero exit iff a filtered diagnostic is an error or a warning under --warnings-as-errors "
            "(exit_iff_error); the JSON / text / SARIF report contains exactly the filtered diagnostics, each once under its own file "
            "(report_exact, counts_exact); when every task sends once the count reaches the total exactly at the last message and no message "
            "is left or processed twice (loop_terminates, loop_ends_on_closed_channel). The model is tied to the code by running the real "
            "emmylua_check binary on generated workspaces x filters x warnings-as-errors x formats x output destinations and comparing its exit "
            "status and parsed report with the model fed with the diagnose_file results obtained in-process; the property is also searched "
            "directly on the binary with an independent oracle.",
    "note": "Trusted: Coq kernel; the hand model (a diagnostic is its severity plus an identity; each writer renders every diagnostic it is given, "
            "which the correspondence observes by parsing the reports); the report parsers of the harness; diagnose_file in the harness process "
            "equals diagnose_file in the checker process (same code, same files). The bounded tokio channel is modelled as the list of messages in "
            "arrival order. Axioms: none.",
    "technique": "Coq proof (fold over an arbitrary arrival order, permutation invariance of the accumulated multisets) about a hand-written "
                 "Gallina transcription + exact model-vs-binary correspondence + oracle search on the real binary",
}

THEOREMS = [("exit_iff_error", "theorem"), ("report_exact", "theorem"), ("loop_terminates", "theorem"),
            ("loop_ends_on_closed_channel", "theorem"), ("counts_exact", "theorem"), ("check_example", "example")]

TRUSTED = [
    "Coq 8.16.1 kernel (coqc), vm_compute used in the Example and in the correspondence evaluation",
    "axioms: none (Print Assumptions: Closed under the global context for every theorem)",
    "hand-written model coq/theories/C36/Model.v of crates/emmylua_check/src/output/mod.rs, cmd_args.rs (allows) and the three writers; "
    "tied by the correspondence check (harness vh_cli/src/bin/c36.rs + coq/theories/C36/Corr.v)",
    "modelling assumptions: a diagnostic = severity + identity of its rendering in the report format; the mpsc channel = the list of messages in arrival order; "
    "usize counters unbounded",
    "harness: report parsers (JSON, SARIF, text), re-implementation of the workspace loading of emmylua_check::init with the same pub functions, "
    "diagnose_file run in the harness process",
    "search oracle: independent re-statement of filter / error rule / per-format rendering inside the harness (oracle())",
]

FMT = {"json": "Json", "text": "Text", "sarif": "Sarif"}


def copt(x):
    return "None" if x is None else "(Some %d)" % x


def case_to_coq(c):
    """The order of the diagnostics inside one file is not part of the property (and diagnose_file does not return
    them in the same order in every process): both sides are put in id order; the filter keeps that order."""
    msgs = []
    for f, ds in c["msgs"]:
        if ds is None:
            msgs.append("(%d, None)" % f)
        else:
            msgs.append("(%d, Some %s)" % (f, coq_list(["{| d_sev := %s; d_id := %d |}" % (copt(s), i) for s, i in sorted(ds, key=lambda x: x[1])])))
    blocks = ["(%d, %s)" % (b[0], coq_list([str(i) for i in sorted(b[1])])) for b in c["blocks"]]
    flat = ["(%d, %d)" % (b[0], i) for b in c["blocks"] for i in sorted(b[1])]
    counts = "None" if c["counts"] is None else "(Some (%d, %d, %d, %d))" % tuple(c["counts"])
    return ("{| c_opts := {| o_filter := %s; o_wae := %s; o_format := %s |}; c_total := %d; c_msgs := %s; c_exit := %d; "
            "c_blocks := %s; c_flat := %s; c_counts := %s |}" % (
                copt(c["filter"]), "true" if c["wae"] else "false", FMT[c["format"]], c["total"], coq_list(msgs), c["exit"],
                coq_list(blocks), coq_list(flat), counts))


def describe(c):
    return "-f %s%s%s%s" % (c["format"], "" if c["filter"] is None else " --severity %s" % ["", "error", "warn", "info", "hint"][c["filter"]],
                            " --warnings-as-errors" if c["wae"] else "", " --output <file>" if c["to_file"] else "")


def correspondence(ck, binpath, chk, n, combos):
    rc, out, err = ck.run_bin(binpath, ["corr", "--seed", ck.seed, "--n", n, "--combos", combos, "--bin", chk,
                                        "--dir", os.path.join(ck.work, "ws"), "--par", min(NCPU, 8)], timeout=2400)
    if rc != 0:
        ck.tie_broken("harness c36 corr failed", err[-2000:])
        return
    cases = [json.loads(l) for l in out.splitlines() if l.strip()]
    good = []
    for c in cases:
        if c.get("parse_error"):
            ck.tie_broken("report of emmylua_check %s could not be parsed: %s" % (describe(c), c["parse_error"]), json.dumps(c["spec"]["files"])[:3000])
            continue
        if c["status"] not in (0, 1):
            ck.tie_broken("emmylua_check %s ended with status %r" % (describe(c), c["status"]), json.dumps(c["spec"]["files"])[:3000])
            continue
        good.append(c)
    failing = ck.coq_failing("corr", [case_to_coq(c) for c in good], ["EV.C36.Model", "EV.C36.Corr"], per_shard=8, timeout=1200)
    for i in failing or []:
        c = good[i]
        ck.tie_broken("model/implementation disagreement on exit status or report for emmylua_check %s (workspace %d)" % (describe(c), c["case"]),
                      json.dumps({k: c[k] for k in ("spec", "msgs", "exit", "blocks", "counts")})[:6000])
    dist = {"process_runs": len(cases), "by_format": {}, "exit_nonzero": 0, "messages": 0, "diagnostics": 0}
    for c in cases:
        dist["by_format"][c["format"]] = dist["by_format"].get(c["format"], 0) + 1
        dist["exit_nonzero"] += 1 if c["exit"] else 0
        dist["messages"] += len(c["msgs"])
        dist["diagnostics"] += sum(len(m[1] or []) for m in c["msgs"])
        ck.count_case(("corr", json.dumps(c["spec"]["files"]), c["format"], c["filter"], c["wae"], c["to_file"]), nontrivial=c["nontrivial"])
    ck.cov["distribution"]["corr"] = dist
    if good:
        c = good[min(len(good) - 1, 4)]
        ck.sample({"kind": "correspondence case", "command": "emmylua_check " + describe(c), "files": [f[0] for f in c["spec"]["files"]],
                   "exit": c["status"], "report_blocks(file, diagnostic ids)": c["blocks"][:6], "summary_counts": c["counts"]})


def search(ck, binpath, chk, n, combos):
    rc, out, err = ck.run_bin(binpath, ["search", "--seed", ck.seed, "--n", n, "--combos", combos, "--bin", chk,
                                        "--dir", os.path.join(ck.work, "ws"), "--par", min(NCPU, 8)], timeout=3000)
    if rc != 0:
        ck.tie_broken("harness c36 search failed", err[-2000:])
        return
    for l in out.splitlines():
        if not l.strip():
            continue
        v = json.loads(l)
        if "summary" in v:
            ck.cov["distribution"]["search"] = v["summary"]
            ck.add_measured(v["summary"]["cases"], v["summary"]["distinct_nontrivial"])
            continue
        ck.violation(v["signature"], v["what"], {"spec": v["spec"], "opts": v["opts"]})
        ck.sample({"kind": "violation", "signature": v["signature"], "what": v["what"][:500]})


def replay(ck, binpath, chk, path):
    data = json.load(open(path))
    for k, v in enumerate(data.get("violations", [])):
        f = os.path.join(ck.work, "replay_case_%d.json" % k)
        json.dump(v["case"], open(f, "w"))
        rc, out, err = ck.run_bin(binpath, ["one", "--case", f, "--bin", chk, "--dir", os.path.join(ck.work, "ws")], timeout=900)
        for l in out.splitlines():
            if l.strip():
                vv = json.loads(l)
                if "signature" in vv:
                    ck.violation(vv["signature"], vv["what"], {"spec": vv["spec"], "opts": vv["opts"]})


def main(argv):
    ck = Check("C36", argv)
    bins = ck.build_harness("vh_cli", ["c36"])
    chk = ck.build_repo_bin("emmylua_check", "emmylua_check")
    if ck.replay and bins and chk:
        replay(ck, bins["c36"], chk, ck.replay)
        ck.finish(trusted_base=TRUSTED)
    ok = ck.coq_make(["theories/C36/Props.vo", "theories/C36/Corr.vo"])
    if ok:
        ck.coq_gates(["C36"], THEOREMS, "EV.C36.Props")
    if bins and chk:
        if os.path.exists(os.path.join(COQ, "theories/C36/Corr.vo")):
            correspondence(ck, bins["c36"], chk, ck.scale(4, 40), ck.scale(4, 8))
        if ck.broken:
            ck.deep = True
        search(ck, bins["c36"], chk, ck.scale(6, 80), ck.scale(5, 12))
    ck.finish(
        trusted_base=TRUSTED,
        rule="generated workspaces on disk (1-5 main files in nested folders, LF / CRLF / lone-CR line ends, planted undefined-global / unused / "
             "param-type-mismatch / assign-type-mismatch / unnecessary-if / syntax errors incl. at end of file, non-ASCII text, ---@meta and "
             "---@diagnostic disable files, a library with diagnostics of its own, .emmyrc severity overrides / disabled codes / diagnostics off) "
             "+ 4 hand-written witnesses (corpus/C36); each checked by the real binary under 5-12 option sets drawn from format x severity filter x "
             "warnings-as-errors x stdout/file; non-trivial = at least one diagnostic in the workspace; distinct by (file contents, option set)",
        assumptions=["diagnose_file in the harness process and in the checker process give the same result for the same files",
                     "correspondence and search are sampled (they validate the model and look for replays; the theorems carry the all-orders claim)"])
