"""shared by C22 and C23: LineIndex / LuaDocument conversions (harness vh_analysis/c22, model EV.C22.Model)"""
import json
from vcheck import *

TRUSTED = [
    "Coq 8.16.1 kernel (coqc), vm_compute used in Examples and in the correspondence evaluation; no native_compute",
    "axioms: none (Print Assumptions: Closed under the global context for every theorem)",
    "hand-written model coq/theories/C22/Model.v of crates/emmylua_parser/src/text/line_index.rs and vfs/document.rs; "
    "tied by the correspondence check (harness vh_analysis/src/bin/c22.rs + coq/theories/C22/Corr.v)",
    "modelling assumptions: a &str is the list of its chars; byte offsets are unbounded N (Rust u32, texts < 4 GiB); "
    "partition_point on the sorted line_offsets is the length of the satisfying prefix",
    "search oracle: independent UTF-16/LSP reference implementation inside the harness (reference())",
]


def res(v, f):
    if v == "N":
        return "Nothing"
    if v == "P":
        return "Panic"
    return "(Val %s)" % f(v)


def case_to_coq(c):
    lc = []
    for e in c["lc"]:
        if len(e) == 3:
            lc.append("(%d, Val (%d,%d))" % (e[0], e[1], e[2]))
        else:
            lc.append("(%d, %s)" % (e[0], "Nothing" if e[1] == "N" else "Panic"))
    off = ["((%d,%d),(%s,%s))" % (e[0], e[1], res(e[2], str), res(e[3], str)) for e in c["off"]]
    lr = ["(%d, %s)" % (e[0], "None" if e[1] == "N" else "Some (%d,%d)" % (e[1], e[2])) for e in c["lr"]]
    rr = []
    for e in c["rr"]:
        r1 = res(e[2], lambda v: "((%d,%d),(%d,%d))" % tuple(v))
        r2 = res(e[3], lambda v: "(%d,%d)" % tuple(v))
        rr.append("((%d,%d),(%s,%s))" % (e[0], e[1], r1, r2))
    return "{| c_text := %s; c_lines := %d; c_lc := %s; c_off := %s; c_lr := %s; c_rr := %s |}" % (
        coq_list([str(x) for x in c["t"]]), c["lines"], coq_list(lc), coq_list(off), coq_list(lr), coq_list(rr))


def correspondence(ck, binpath, n, maxlen):
    rc, out, err = ck.run_bin(binpath, ["corr", "--seed", ck.seed, "--n", n, "--maxlen", maxlen])
    if rc != 0:
        ck.tie_broken("harness c22 corr failed", err[-2000:])
        return
    cases = [json.loads(l) for l in jlines(out) if l.strip()]
    nshard = min(NCPU, max(1, len(cases) // 40))
    shards = [cases[i::nshard] for i in range(nshard)]
    bodies = []
    for sh_cases in shards:
        b = "Local Open Scope N_scope.\nDefinition cases : list case := [\n" + ";\n".join(case_to_coq(c) for c in sh_cases) + "].\n"
        b += "Eval vm_compute in (failing cases 0).\n"
        bodies.append(b)
    results = ck.coq_eval_shards("corr", bodies, ["EV.C22.Model", "EV.C22.Corr"], timeout=1200)
    nobs = 0
    for (rc, out), sh_cases in zip(results, shards):
        if rc != 0:
            ck.tie_broken("correspondence evaluation did not compile (model C22/Model.v or Corr.v broken)", out[-3000:])
            continue
        m = re.search(r"=\s*\[(.*?)\]\s*:\s*list N", out, re.S)
        if not m:
            ck.tie_broken("unparsable correspondence output", out[-1000:])
            continue
        idx = [int(x) for x in re.findall(r"\d+", m.group(1))]
        for i in idx:
            c = sh_cases[i]
            ck.tie_broken("model/implementation disagreement on LineIndex conversions for text %r" % "".join(chr(x) for x in c["t"]),
                          json.dumps(c)[:3000])
        for c in sh_cases:
            k = len(c["lc"]) + len(c["off"]) + len(c["lr"]) + len(c["rr"])
            nobs += k
            txt = "".join(chr(x) for x in c["t"])
            ck.count_case(("corr", tuple(c["t"])), nontrivial=("\n" in txt or "\r" in txt or not txt.isascii()))
    ck.cov["traces_validated_against_impl"] += len(cases)
    ck.cov["distribution"]["corr_texts"] = len(cases)
    ck.cov["distribution"]["corr_observations"] = nobs
    if cases:
        c = cases[min(len(cases) - 1, 15)]
        ck.sample({"kind": "correspondence case", "text": "".join(chr(x) for x in c["t"]), "get_line_col": c["lc"][:6], "get_offset": c["off"][:6]})


def search(ck, binpath, n, maxlen, sigs):
    """sigs: signatures that belong to this property (others belong to the sibling property)"""
    rc, out, err = ck.run_bin(binpath, ["search", "--seed", ck.seed, "--n", n, "--maxlen", maxlen])
    if rc != 0:
        ck.tie_broken("harness c22 search failed", err[-2000:])
        return
    lines = [json.loads(l) for l in jlines(out) if l.strip()]
    # report the smallest failing text first (the generator's fixed corpus and short texts come first anyway)
    lines.sort(key=lambda v: len(v.get("text", [])) if "summary" not in v else -1)
    for v in lines:
        if "summary" in v:
            ck.cov["distribution"]["search"] = v["summary"]
            ck.add_measured(v["summary"]["texts"], v["summary"]["distinct_nontrivial"])
            continue
        if v["signature"] in sigs:
            text = "".join(chr(x) for x in v["text"])
            ck.violation(v["signature"], "%s on text %r" % (v["what"], text), {"text": text, "what": v["what"]})


def replay(ck, binpath, path, sigs):
    data = json.load(open(path))
    for v in data.get("violations", []):
        t = v["case"].get("text")
        rc, out, err = ck.run_bin(binpath, ["one", "--text-json", json.dumps(t)])
        for l in jlines(out)[1:]:
            vv = json.loads(l)
            if vv["signature"] in sigs:
                ck.violation(vv["signature"], "%s on text %r" % (vv["what"], t), {"text": t, "what": vv["what"]})
