from store_common import *

META = {
    "category": "proof",
    "text": 'Coq proves, for EVERY history of updates, removals and reindexes (Base/StoreSM.v driver over the LuaModuleIndex refinement shared with C33), that clearing gives the observations and sizes of a new index (clear_is_init; the id counter that survives clear() is shown unobservable) and that a reindex is observationally a fresh analysis of the files in the Vfs loaded in file-id order (reindex_eq_fresh); for the LuaPropertyIndex, LuaGlobalIndex and DiagnosticIndex transcriptions clear() is literally the initial state, so reindex IS the fresh analysis; the PRODUCT store LuaModuleIndex x LuaGlobalIndex x DiagnosticIndex (DbIndex::clear / remove / update acting on every modelled index) satisfies product_clear_is_init and product_reindex_eq_fresh for every history. Table obligations are regenerated from the source on every run (lib/index_fields.py -> coq/theories/Gen/C09_IndexFields.v) and re-proved: every field of DbIndex that implements LuaIndex is cleared by DbIndex::clear and removed-from by DbIndex::remove; every fact container of every index struct is reset by its clear() and touched by its remove() — a new index field that clear/remove forgets breaks an obligation. The real indexes are driven directly (clear must equal a new index: kernel oracle) and the whole analysis is searched end-to-end (reindex after any history INCLUDING configuration changes — moduleMap set / changed / removed, strict require path, require patterns, extensions — vs a fresh EmmyLuaAnalysis under the final configuration: full observable dump and H2 sizes); the module-index correspondence has the configuration change as an op.',
    "note": 'Modelled and proved: LuaModuleIndex, LuaGlobalIndex, DiagnosticIndex (StoreSM refinements) and their product; LuaPropertyIndex (state equality). LuaTypeIndex (per-file part) and LuaMemberIndex: transcribed and tied by correspondence, clear() = initial state, plus the kernel oracle on the real structs and the table obligations. All other indexes: table obligations + end-to-end search. Known open finding: JsonSchemaIndex (keyed by URL) has TODO stubs for clear()/remove(), recorded as the one exception of the table theorems (index_containers_known_refuted keeps the exception list tight). Axioms: none.',
    "technique": "Coq refinement proof over all histories + table obligations regenerated from source and re-proved by computation + model-independent oracle on the real index structs + end-to-end differential search (reindex vs fresh analysis)",
}

THEOREMS = [("clear_is_init", "theorem"), ("reindex_eq_fresh", "theorem"), ("property_reindex_eq_fresh", "theorem"),
            ("global_reindex_eq_fresh", "theorem"), ("diagnostic_reindex_eq_fresh", "theorem"),
            ("product_clear_is_init", "theorem"), ("product_reindex_eq_fresh", "theorem"),
            ("dbindex_fields_all_cleared_and_removed", "table"), ("index_containers_reset_by_clear_outside_known", "table"),
            ("index_containers_touched_by_remove_outside_known", "table"), ("index_containers_known_refuted", "refutation"),
            ("reindex_example", "example")]
PROPS = {"C09"}


def main(argv):
    ck = Check("C09", argv)
    attach_findings(ck)
    bins = ck.build_harness("vh_analysis", ["c08", "c33"])
    if ck.replay and bins:
        replay(ck, bins["c08"], ck.replay, PROPS)
        ck.finish(trusted_base=TRUSTED)
    regenerate_tables(ck)
    ok = ck.coq_make(COQ_TARGETS)
    if ok:
        ck.coq_gates(["Base", "C33", "C08", "C09", "Gen"], THEOREMS, "EV.C09.Props")
    if bins:
        if os.path.exists(os.path.join(COQ, "theories/C08/Corr.vo")):
            index_correspondence(ck, bins["c08"], ck.scale(60, 1000))
        if os.path.exists(os.path.join(COQ, "theories/C33/Corr.vo")):
            module_correspondence(ck, bins["c33"], ck.scale(50, 2000), label="modcorr")
        if ck.broken:
            ck.deep = True
        kernel(ck, bins["c08"], ck.scale(300, 6000), PROPS)
        search(ck, bins["c08"], ck.scale(1500, 60000), PROPS)
    ck.finish(
        trusted_base=TRUSTED,
        rule="kernel oracle: op sequences ending in clear on the real LuaPropertyIndex / LuaGlobalIndex / DiagnosticIndex / LuaTypeIndex / LuaMemberIndex, "
             "every query and container count must equal those of a new index; correspondence as for C08; search: the C08 workspaces and histories, every "
             "`reindex` step is compared (dump and H2 sizes, equality) with a fresh EmmyLuaAnalysis of the surviving files loaded in file-id order; "
             "non-trivial = the case reached a judged step; distinct by case",
        assumptions=ASSUMPTIONS)
