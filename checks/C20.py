from diag_common import *

META = {
    "category": "proof",
    "text": 'One theorem per sentence of the statement about a Gallina transcription of run_check / add_diagnostic / is_checker_enable_by_code / get_severity / diagnose_file and of the undefined-global filter, for ALL configurations, files and checker bodies (a checker is its CODES plus an arbitrary list of add_diagnostic calls). The code tables, the checkers\' CODES and the ORDER of the tests of the enable chain are regenerated from the Rust source into coq/theories/Gen/C20_Diag.v on every run, so the theorems are re-proved against today\'s tables. The model is tied to the code by running the whole switch lattice (file enable x workspace disable x meta tag in six spellings x file disable x workspace enables x enable x severity x placement, for 16 trigger programs) through the real diagnose_file and comparing with the model, and the sentences are searched directly on the implementation with random configurations.',
    "note": 'Trusted: Coq kernel; the translator (shape-anchored, name table validated against the implementation); the hand model of the gates (validated by the exhaustive lattice correspondence, not proved equal to the Rust); what checkers emit is universally quantified, not modelled. Range suppression (C19) is an abstract predicate. Axioms: none.',
    "technique": "Coq proof over tables regenerated from source + exhaustive-lattice model-vs-implementation correspondence + oracle search",
}

THEOREMS = [("disabled_never_unless_file_enabled", "theorem"), ("enables_reported", "theorem"), ("emits_within_codes", "table"),
            ("severity_override", "theorem"), ("severity_configured", "theorem"), ("globals_never_undefined", "theorem"),
            ("globals_match_listed", "theorem"), ("globals_match_regex", "theorem"), ("only_ug_checker_emits_ug", "table"),
            ("library_std_silent", "theorem"), ("meta_silent", "theorem"), ("meta_tag_sets_flag", "theorem"), ("meta_tag_silent", "theorem"), ("enable_false_silent", "theorem"),
            ("chain_formula", "theorem"), ("config_example", "example"), ("some_code_off_by_default", "example")]

TRUSTED = TRUSTED_COMMON + [
    "hand-written model coq/theories/C20/Model.v of diagnostic/checker/mod.rs (run_check, add_diagnostic, get_severity, "
    "is_checker_enable_by_code), lua_diagnostic.rs (diagnose_file), lua_diagnostic_config.rs and checker/undefined_global.rs; "
    "tied by the correspondence check (harness vh_analysis/src/bin/c20.rs + coq/theories/C20/Corr.v)",
    "modelling assumptions: checkers report only through add_diagnostic (translator anchor: no checker touches the diagnostics vector); "
    "a compiled regex is an arbitrary predicate on names; HashSet/HashMap are lists with membership/first-binding lookup; "
    "cancellation and a missing syntax tree (both return None = nothing reported) are not modelled",
    "search oracle: the six sentences evaluated on diagnose_file's output; 'would be reported' = the diagnostics of the same text with every code forced on",
]

WS = {"main": "(Some 1)", "lib": "(Some 3)", "std": "(Some 0)", "none": "None"}
SEV = {"error": "ERROR", "warning": "WARNING", "information": "INFORMATION", "hint": "HINT"}
PRELUDE = "Import ListNotations.\nOpen Scope string_scope.\n"
REQ = ["Coq.Lists.List", "Coq.Strings.String", "Coq.NArith.NArith", "EV.C20.Model", "EV.C20.Corr"]


def b(x):
    return "true" if x else "false"


def lattice_term(t, r):
    code = coq_code(t, r["code"])
    o = r["obs"]
    if o == "none":
        obs = "ObsNone"
    elif o == "absent":
        obs = "ObsAbsent"
    elif isinstance(o, dict) and "present" in o and len(o["sev"]) == 1 and o["sev"][0] in SEV.values():
        obs = "(ObsPresent %s)" % o["sev"][0]
    else:
        return None
    if code is None:
        return None
    # (LuaModuleIndex::set_meta only marks files the module index knows: the model derives the flag from the tag and from
    #  whether the file lies under a workspace root, and the real is_meta_file answer is compared with it)
    if r["meta"] is None:
        tag = "NoMetaTag"
    elif r["meta"] == "":
        tag = "BareMeta"
    else:
        tag = '(NamedMeta "%s")' % r["meta"]
    if not isinstance(r.get("is_meta"), bool):
        return None
    return ('{| c_code := %s; c_checker := "%s"; c_fe := %s; c_wd := %s; c_tag := %s; c_is_meta := %s; c_fd := %s; c_we := %s; c_enable := %s; '
            'c_sev := %s; c_level := L_%s; c_ws := %s; c_obs := %s |}') % (
        code, r["checker"], b(r["fe"]), b(r["wd"]), tag, b(r["is_meta"]), b(r["fd"]), b(r["we"]), b(r["enable"]),
        "None" if r["sev"] is None else "(Some %s)" % SEV[r["sev"]], r["level"], WS[r["placement"]], obs)


def globals_term(r):
    rep = r["reported"]
    if rep == "none":
        reported = "None"
    elif isinstance(rep, list):
        reported = "(Some %s)" % coq_list([coq_name(n) for n in rep])
    else:
        return None
    rx = coq_list([coq_list(["None" if v is None else "(Some %s)" % b(v) for v in vs]) for vs in r["rx"]])
    return "{| g_names := %s; g_globals := %s; g_rx := %s; g_reported := %s |}" % (
        coq_list([coq_name(n) for n in r["names"]]), coq_list([coq_name(n) for n in r["globals"]]), rx, reported)


def correspondence(ck, binpath, t, n):
    rc, out, err = ck.run_bin(binpath, ["corr", "--seed", ck.seed, "--n", n])
    if rc != 0:
        ck.tie_broken("harness c20 corr failed", err[-2000:])
        return
    rows = [json.loads(l) for l in jlines(out) if l.strip()]
    lat = [r for r in rows if r["kind"] == "lattice"]
    glo = [r for r in rows if r["kind"] == "globals"]
    # the triggers must trigger: forced on by `enables` in a plain main-workspace file
    for r in lat:
        if r["we"] and not (r["fe"] or r["wd"] or r["meta"] is not None or r["fd"]) and r["enable"] and r["sev"] is None and r["placement"] == "main":
            if not isinstance(r["obs"], dict):
                ck.tie_broken("trigger program for %s (%s) no longer produces the diagnostic even when forced on" % (r["code"], r["checker"]), json.dumps(r))
    # a trigger whose emission itself depends on the `---@meta` tag (e.g. duplicate-type: declarations of a meta file may be
    # repeated) says nothing about the chain in the one placement where the tag does not make the file a meta file
    robust = set()
    for r in lat:
        if r["we"] and r["meta"] is not None and not (r["fe"] or r["wd"] or r["fd"]) and r["enable"] and r["sev"] is None and r["placement"] == "none" \
                and isinstance(r["obs"], dict):
            robust.add((r["code"], r["checker"], r["level"], r["meta"]))
    skipped = 0
    terms, keep = [], []
    for r in lat:
        if r["meta"] is not None and r["placement"] == "none" and (r["code"], r["checker"], r["level"], r["meta"]) not in robust:
            skipped += 1
            continue
        term = lattice_term(t, r)
        if term is None:
            ck.tie_broken("unusable lattice observation (panic, unknown code or mixed severities)", json.dumps(r)[:2000])
            continue
        terms.append(term)
        keep.append(r)
    failing = ck.coq_failing("corr_lattice", terms, REQ, check_fn="check_case", case_type="case", per_shard=300, prelude=PRELUDE)
    for i in failing or []:
        r = keep[i]
        ck.tie_broken("model/implementation disagreement on the enable chain / meta flag: code %s (%s) fe=%s wd=%s meta-tag=%r fd=%s we=%s enable=%s sev=%s placement=%s observed %s"
                      % (r["code"], r["checker"], r["fe"], r["wd"], r["meta"], r["fd"], r["we"], r["enable"], r["sev"], r["placement"], json.dumps(r["obs"])),
                      json.dumps(r))
    for r in keep:
        key = dict(r)
        key.pop("obs")
        ck.count_case(("lattice", json.dumps(key, sort_keys=True)), nontrivial=(r["fe"] or r["wd"] or r["meta"] is not None or r["fd"] or r["we"] or r["sev"] is not None))
    gterms, gkeep = [], []
    for r in glo:
        term = globals_term(r)
        if term is None:
            ck.tie_broken("unusable globals observation", json.dumps(r)[:2000])
            continue
        gterms.append(term)
        gkeep.append(r)
    failing = ck.coq_failing("corr_globals", gterms, REQ, check_fn="check_gcase", case_type="gcase", per_shard=100, prelude=PRELUDE)
    for i in failing or []:
        r = gkeep[i]
        ck.tie_broken("model/implementation disagreement on the undefined-global globals/globalsRegex filter", json.dumps(r))
    for r in gkeep:
        ck.count_case(("globals", json.dumps([r["names"], r["globals"], r["regex"]])), nontrivial=bool(r["names"]) and bool(r["globals"] or r["regex"]))
    ck.cov["distribution"]["corr_lattice_cases"] = len(keep)
    ck.cov["distribution"]["corr_lattice_skipped_meta_tag_sensitive_trigger_outside_workspace"] = skipped
    ck.cov["distribution"]["corr_lattice_reporting"] = sum(1 for r in keep if isinstance(r["obs"], dict))
    ck.cov["distribution"]["corr_globals_cases"] = len(gkeep)
    for r in keep:
        if r["fe"] and r["wd"] and isinstance(r["obs"], dict):
            ck.sample({"kind": "lattice case (disabled in the workspace, enabled by the file)", **r})
            break
    for r in keep:
        if r["meta"] == "socket.io" and r["fe"] and r["placement"] == "main" and r["enable"]:
            ck.sample({"kind": "lattice case (named meta file that force-enables the code)", **r})
            break
    if gkeep:
        ck.sample({"kind": "globals case", **gkeep[min(3, len(gkeep) - 1)]})


def search(ck, binpath, n):
    corpus = os.path.join(VERIF, "corpus", "C20")
    rc, out, err = ck.run_bin(binpath, ["search", "--seed", ck.seed, "--n", n, "--corpus", corpus])
    if rc != 0:
        ck.tie_broken("harness c20 search failed", err[-2000:])
        return
    for l in jlines(out):
        if not l.strip():
            continue
        v = json.loads(l)
        if "summary" in v:
            ck.cov["distribution"]["search"] = v["summary"]
            ck.add_measured(v["summary"]["cases"], v["summary"]["distinct_nontrivial"])
            continue
        ck.violation(v["signature"], v["what"], {"case": v["case"], "text": v["text"]})


def replay(ck, binpath, path):
    data = json.load(open(path))
    for v in data.get("violations", []):
        case = v["case"].get("case")
        if case is None:
            continue
        rc, out, err = ck.run_bin(binpath, ["one", "--case-json", json.dumps(case)])
        for l in jlines(out):
            if l.strip():
                vv = json.loads(l)
                ck.violation(vv["signature"], vv["what"], {"case": vv["case"], "text": vv["text"]})


def main(argv):
    ck = Check("C20", argv)
    bins = ck.build_harness("vh_analysis", ["c20"])
    if ck.replay and bins:
        replay(ck, bins["c20"], ck.replay)
        ck.finish(trusted_base=TRUSTED)
    t = regenerate_tables(ck)
    if bins:
        check_names(ck, bins["c20"], t)
    ok = ck.coq_make(["theories/C20/Props.vo", "theories/C20/Corr.vo"])
    if ok:
        ck.coq_gates(["C20"], THEOREMS, "EV.C20.Props")
    if bins:
        if t is not None and (ok or os.path.exists(os.path.join(COQ, "theories/C20/Corr.vo"))):
            correspondence(ck, bins["c20"], t, ck.scale(300, 3000))
        if ck.broken:
            ck.deep = True
        search(ck, bins["c20"], ck.scale(6000, 60000))
    ck.finish(
        trusted_base=TRUSTED,
        rule="correspondence: every point of {file enable, workspace disable, meta, file disable, workspace enables, diagnostics.enable, severity override} "
             "(the meta tag in all its spellings: none, bare, `_`, `no-require`, a module name, a dotted module name; the real is_meta_file answer is compared too) "
             "x placement {main, library, std, outside every workspace} for 16 trigger programs (one per code/checker pair, incl. default-off codes, a "
             "level-dependent code at two language levels, multi-code checkers), plus random globals/globalsRegex lists over a pool of names; "
             "search: random configurations (subsets of codes in disable/enables incl. all/none, severity maps, globals and valid/invalid regexes, three "
             "language levels, enable on/off) x concatenations of trigger programs with random file-level enable/disable/meta headers x four placements; "
             "non-trivial = a case in which some switch is set (correspondence) / some diagnostic is reported or would be with every code forced on (search); "
             "distinct by the whole case",
        assumptions=["checkers report only through DiagnosticContext::add_diagnostic", "a `---@meta` file outside every workspace root is not a meta file for the module index "
                     "(LuaModuleIndex::set_meta needs a module entry); such files are ignored by the server and are outside the sentence's domain",
                     "correspondence and search validate the model and look for replays; the theorems carry the all-configurations claim"])
