from typecheck_common import *

META = {
    "category": "proof",
    "text": "PROVED (Coq, for every finite declaration graph, cyclic or not, and every pair of types of the modelled grammar): the recursions "
            "of the analyzer that carry a guard and follow user-defined, possibly cyclic structure terminate — is_sub_type_of (iterative "
            "DFS with a visited set) and the recursive super_reaches filter answer on any world and is_sub_type_of computes exactly the "
            "reflexive-transitive closure of the effective super edges, and the graph get_super_types_iter shows (cyclic edges "
            "filtered with a fresh visited set per edge) is acyclic whatever is declared; the type-check recursion is at most MAX_TYPE_CHECK_LEVEL + 1 "
            "deep and answers TypeRecursion instead of diverging; InferGuard cuts every cycle (an id checked on a guard is refused on it "
            "and on every guard forked from it, so a checking walk is at most as deep as there are ids); the humanizer's depth guard "
            "bounds write_type. NOT PROVED, only EXPLORED: that indexing, diagnosing and querying terminate without panicking on every "
            "program — the remaining ~89 kLoC are searched with generated and mutated annotated programs (cyclic class / alias graphs, "
            "self-referential generics, deep nesting, mutated std files) across language levels and strictness settings, running "
            "update + diagnose_file + semantic info / infer on every token and expression in child processes on 2 MiB stacks under a "
            "wall-clock budget; a panic, an abort (stack overflow) or a timeout is the replay.",
    "note": "Recursion guards proved; totality explored, not proved. The search DOES find crashes: unguarded recursions over "
            "self-referential generics / aliases / class graphs overflow the stack (process abort), exponential type checks hang. Seven "
            "classes were repaired in /repo (comment inside index brackets ccf2a41, remove_type 66e20f3, narrow_down_type c568a5f, "
            "call-non-callable 294e839, integer constant folding overflow c3dc79d, long-string value 44d94e8, nesting bound on generic instantiation 67d6cc4); nineteen remain open findings (three of them fallback names for overflows gdb could not sample) (findings/C12.json), identified "
            "by the function in which the stack overflows / the time is spent, and the check fails on any crash with a new signature. "
            "Trusted: Coq kernel; the hand models (the type-check / sub-type model, the InferGuard model and the humanizer "
            "depth guard are validated by correspondence; gdb for crash signatures; the search is "
            "sampling. Axioms: none.",
    "technique": "Coq proof of termination / depth bounds (fuel-indexed models, invariants over visited sets) about hand-written Gallina "
                 "transcriptions + constants regenerated from source + correspondence on cyclic graphs + crash search in sandboxed child processes",
}

THEOREMS = [
    ("subtype_terminates", "theorem"), ("super_reaches_terminates", "theorem"), ("subtype_is_rtc", "theorem"),
    ("effective_supers_acyclic", "theorem"), ("braid_example", "example"),
    ("check_depth_bounded", "theorem"), ("check_depth_bounded_gen", "theorem"),
    ("guard_cycle_cut", "theorem"), ("guard_walk_terminates", "theorem"), ("humanize_terminates", "theorem"),
    ("subtype_cycle_example", "example"), ("recursion_error_example", "example"), ("walk_cycle_example", "example"),
]

TRUSTED = MODEL_TRUSTED + [
    "hand-written model coq/theories/C12/Model.v of semantic/guard.rs (InferGuard: heap of guard nodes, fork/check) and of the "
    "recursion skeleton of db_index/type/humanize_type.rs (every descent through write_type); tied by correspondence: random "
    "new/fork/check programs on the real InferGuard, and whether TypeHumanizer::with_max_depth cuts nested array/tuple/union types",
    "the crash search (harness vh_analysis/src/bin/c12.rs) is exploration: child processes, 2 MiB thread stacks, per-case wall-clock budget",
]


def own_findings(prop):
    p = os.path.join(VERIF, "findings", "%s.json" % prop)
    return json.load(open(p)) if os.path.exists(p) else []


def with_own_findings(ck):
    orig = ck.load_known

    def load():
        known = orig()
        have = {k["signature"] for k in known}
        for e in own_findings(ck.prop):
            if e.get("property") == ck.prop and e.get("status") == "open" and e["signature"] not in have:
                known.append(e)
        return known
    ck.load_known = load


RAW_TIMEOUT_NAMES = ["signal6:stack-overflow:alias:generic", "signal6:stack-overflow:class:generic-cycle", "signal6:stack-overflow:class:chain",
                     "signal6:stack-overflow:generic:random-types", "signal6:stack-overflow:mix:mix", "signal6:stack-overflow:class:braid",
                     "timeout@instantiate_type::instantiate_type_generic_inner", "timeout@infer_index::infer_member_by_operator_key_type", "timeout:generic:random-types",
                     "timeout@LuaTypeIndex::super_reaches", "timeout@checker::check_file", "timeout@find_members::find_members_guard",
                     "timeout@EmmyLuaAnalysis::update_files_by_uri", "timeout@type_check::check_general_type_compact",
                     "timeout@generic_type::check_generic_type_compact", "timeout@instantiate_special_generic::instantiate_alias_call",
                     "timeout:alias:generic", "timeout:alias:self", "timeout:alias:mutual", "timeout:mix:mix", "timeout:class:chain",
                     "timeout:class:weird-super", "timeout:corpus"]

TIMEOUT_CLASSES = [
    # (signature, predicate on the concatenated program text) -- first match wins
    ("timeout:class-chain:depth>=1000", lambda t: len(re.findall(r"(?m)^---@class \w+: \w+\s*$", t)) >= 1000),
    ("timeout:recursive-mapped-alias", lambda t: any(re.search(r"\b%s\b" % re.escape(m.group(1)), m.group(2))
                                                      for m in re.finditer(r"(?m)^---@alias (\w+)(?:<[^>\n]*>)?\s+(.*\[\s*\w+ in keyof.*)$", t))),
    ("timeout:self-conditional-alias", lambda t: any(re.search(r"\b%s\b" % re.escape(m.group(1)), m.group(2))
                                                      for m in re.finditer(r"(?m)^---@alias (\w+)(?:<[^>\n]*>)?\s+(.*\bextends\b.*)$", t))),
    ("timeout:generic-bound-cycle", lambda t: re.search(r"(?m)^---@class (\w+)<\w+\s*:\s*\1<", t) is not None),
    ("timeout:alias-through-intersection", lambda t: _alias_through_intersection(t)),
    ("timeout:self-referential-generic-class", lambda t: _self_referential_generic_class(t)),
]


def _self_referential_generic_class(t):
    """a generic class that inherits from an instance of itself, or whose field / operator types apply keyof or a mapped
    type to an instance of the class"""
    for n in set(re.findall(r"(?m)^---@class (\w+)<", t)):
        if re.search(r"(?m)^---@class %s<[^>\n]*>\s*:.*\b%s<" % (n, n), t):
            return True
        if re.search(r"(?m)^---@(?:field|operator|param|return).*(?:keyof|\bin keyof\b).*\b%s<" % n, t):
            return True
    return False


def _alias_through_intersection(t):
    aliases = set(re.findall(r"(?m)^---@alias (\w+)", t))
    for m in re.finditer(r"(?m)^---@alias (\w+)(?:<[^>\n]*>)?\s+(.*&.*)$", t):
        if any(re.search(r"\b%s\b" % re.escape(a), m.group(2)) for a in aliases):
            return True
    return False


def normalise(v, case):
    """The harness names a time-out after the function one gdb sample happens to land in; for the exponential / quadratic
    blow-ups that name varies from run to run (and with the machine load).  Time-outs are therefore keyed by the shape of
    the program: the class of input that is known to blow up.  Anything else keeps the harness signature."""
    fallback_overflow = v.get("kind") == "signal" and v["signature"].startswith("signal6:stack-overflow:")
    if v.get("kind") != "timeout" and not fallback_overflow:
        return v["signature"]
    orig = v.get("case") or case
    text = "\n".join(f[1] for f in (orig.get("files") or []))
    for sig, pred in TIMEOUT_CLASSES:
        try:
            if pred(text):
                # a stack overflow whose site gdb could not sample (the harness fell back to the family name) is keyed
                # by the same input classes
                return sig.replace("timeout:", "signal6:stack-overflow:", 1) if fallback_overflow else sig
        except re.error:
            pass
    return v["signature"]


def guard_correspondence(ck, binpath, n):
    """the InferGuard model against the real InferGuard: random new / fork / check programs"""
    rc, out, err = ck.run_bin(binpath, ["guards", "--seed", ck.seed, "--n", n], timeout=600)
    if rc != 0:
        ck.tie_broken("harness c16 guards failed", err[-1500:])
        return
    cases = [json.loads(l) for l in out.split("\n") if l.strip().startswith("{")]
    terms = []
    for c in cases:
        ops = []
        for o in c["ops"]:
            ops.append("GNew" if o[0] == "new" else ("GFork %d%%nat" % o[1] if o[0] == "fork" else "GCheck %d%%nat %d" % (o[1], o[2])))
        terms.append("{| gc_ops := %s; gc_answers := %s |}" % (coq_list(ops), coq_list(["true" if a else "false" for a in c["answers"]])))
    failing = ck.coq_failing("corr_guard", terms, ["EV.C16.Model", "EV.C12.Model", "EV.C12.Corr"], check_fn="check_gcase", case_type="gcase",
                             per_shard=400, timeout=900)
    for i in (failing or [])[:3]:
        ck.tie_broken("model/implementation disagreement on InferGuard (fork / check)", json.dumps(cases[i])[:2000])
    ck.cov["distribution"]["guard_correspondence"] = {"programs": len(cases), "checks": sum(len(c["answers"]) for c in cases),
                                                      "refused": sum(1 for c in cases for a in c["answers"] if not a)}
    for c in cases:
        ck.count_case(("guard", json.dumps(c["ops"])), nontrivial=any(o[0] == "fork" for o in c["ops"]))


def humanize_correspondence(ck, binpath, n):
    """the depth guard of the humanizer model against TypeHumanizer::with_max_depth: is the rendering cut"""
    rc, out, err = ck.run_bin(binpath, ["humanize", "--seed", ck.seed, "--n", n], timeout=600)
    if rc != 0:
        ck.tie_broken("harness c16 humanize failed", err[-1500:])
        return
    cases = [json.loads(l) for l in out.split("\n") if l.strip().startswith("{")]
    it = Interner()
    terms, kept = [], []
    for c in cases:
        try:
            t = ty_to_coq(c["type"], it)
        except OutOfGrammar:
            continue
        terms.append("{| hc_type := %s; hc_max_depth := %d; hc_dots := %s |}" % (t, c["max_depth"], "true" if c["dots"] else "false"))
        kept.append(c)
    failing = ck.coq_failing("corr_hum", terms, ["EV.C16.Model", "EV.C12.Model", "EV.C12.Corr"], check_fn="check_hcase", case_type="hcase",
                             per_shard=400, timeout=900)
    for i in (failing or [])[:3]:
        c = kept[i]
        ck.tie_broken("model/implementation disagreement on the humanizer depth guard: `%s` max_depth %d renders %r" % (c["spec"], c["max_depth"], c["text"][:80]),
                      json.dumps(c)[:2000])
    ck.cov["distribution"]["humanize_correspondence"] = {"types": len(kept), "cut": sum(1 for c in kept if c["dots"]),
                                                         "outside_grammar": len(cases) - len(kept)}
    for c in kept:
        ck.count_case(("hum", c["spec"], c["max_depth"]), nontrivial=len(c["spec"]) > 8)


def search(ck, binpath, n, budget_ms):
    known = [e["signature"] for e in ck.load_known()]
    for e in ck.load_known():
        known += e.get("harness_signatures", [])   # raw names the harness may give to a class that is keyed otherwise
    if any(k.startswith("timeout:") for k in known):
        # raw time-out names only tell the harness not to spend its budget shrinking; the verdict uses normalise()
        known += RAW_TIMEOUT_NAMES
    kf = os.path.join(ck.work, "known_signatures.json")
    json.dump(known, open(kf, "w"))
    rc, out, err = ck.run_bin(binpath, ["search", "--seed", ck.seed, "--n", n, "--budget-ms", budget_ms, "--known-file", kf,
                                        "--corpus", os.path.join(VERIF, "corpus", "C12")], timeout=budget_ms / 1000 * 3 + 600)
    if rc != 0:
        ck.tie_broken("harness c12 search failed", (err or out)[-2000:])
        return
    for l in out.split("\n"):
        if not l.strip().startswith("{"):
            continue
        try:
            v = json.loads(l)
        except ValueError as ex:
            ck.tie_broken("harness c12 search printed an unparsable line", "%s: %s" % (ex, l[:300]))
            continue
        if "summary" in v:
            s = v["summary"]
            ck.cov["distribution"]["search"] = {k: s.get(k) for k in ("cases", "planned", "distinct_nontrivial", "top_families", "families", "levels", "panics",
                                                                       "signals", "timeouts", "signatures", "new_signatures", "known_signatures_seen",
                                                                       "budget_exhausted", "total_ms", "stack_kib", "tokens_queried", "semantic_infos") if k in s}
            ck.add_measured(s.get("cases", 0), s.get("distinct_nontrivial", 0))
            continue
        case = v.get("shrunk") or v.get("case") or {}
        ck.violation(normalise(v, case), "%s: %s" % (v.get("kind", "crash"), v.get("what", "")[:300]),
                     {"files": case.get("files"), "cfg": case.get("cfg"), "family": case.get("family"), "kind": v.get("kind"),
                      "parser_only_crashes": v.get("parser_only_crashes")})
    ck.sample({"kind": "search summary", "signatures": ck.cov["distribution"].get("search", {}).get("signatures")})


def replay(ck, binpath, path):
    data = json.load(open(path))
    for v in data.get("violations", []):
        c = v["case"]
        fn = os.path.join(ck.work, "replay_case.json")
        json.dump({"files": c.get("files") or [], "cfg": c.get("cfg") or {}, "family": c.get("family") or "replay"}, open(fn, "w"))
        rc, out, err = ck.run_bin(binpath, ["one", "--case-file", fn], timeout=120)
        if rc != 0:
            what = "exit %s" % rc
            for l in out.split("\n"):
                if l.strip().startswith("{"):
                    what = l.strip()[:300]
            ck.violation(v["signature"], "replayed: %s" % what, c)


def main(argv):
    ck = Check("C12", argv)
    with_own_findings(ck)
    bins = ck.build_harness("vh_analysis", ["c12", "c16"])
    if ck.replay and bins:
        replay(ck, bins["c12"], ck.replay)
        ck.finish(trusted_base=TRUSTED)
    have_consts = regenerate_consts(ck)
    ok = have_consts and ck.coq_make(["theories/C12/Props.vo", "theories/C16/Corr.vo", "theories/C12/Corr.vo"])
    if ok:
        ck.coq_gates(["C12", "C16"], THEOREMS, "EV.C12.Props")
    if bins:
        if ok or os.path.exists(os.path.join(COQ, "theories/C16/Corr.vo")):
            # the shared model against the implementation, on a different slice of worlds than C16 uses
            ck.seed += 1000
            correspondence(ck, bins["c16"], ck.scale(24, 240), label="corr12")
            ck.seed -= 1000
            guard_correspondence(ck, bins["c16"], ck.scale(400, 4000))
            humanize_correspondence(ck, bins["c16"], ck.scale(300, 3000))
        if ck.broken:
            ck.deep = True
        search(ck, bins["c12"], ck.scale(300, 4000), ck.scale(90000, 900000))
    ck.finish(
        trusted_base=TRUSTED,
        rule="programs = generated families (cyclic / deep class graphs, recursive aliases, self-referential and malformed generics, deep "
             "nesting, flow stress, mutated std files, token soup) x language level x strict.* x all-diagnostics; per case: index, "
             "diagnose every file, semantic info of every token, infer of every expression, humanize of the inferred types, in a child "
             "process on a 2 MiB stack with a wall-clock budget; non-trivial = the program contains a doc annotation; distinct by text. "
             "Correspondence: worlds of the C16 generator (cyclic class graphs, alias chains, recursive aliases) through is_sub_type_of / "
             "check_type_compact versus the model.",
        assumptions=["recursion guards proved; totality explored, not proved",
                     "crash signatures are function names / panic locations: two different inputs overflowing in the same function share a finding"])
