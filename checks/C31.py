from config_common import *

META = {
    "category": "proof",
    "text": 'Theorems about the Gallina transcription of the configuration loader (flatten_object / to_emmyrc_json, merge_values, '
            'load_configs_raw / load_configs, pre_process_path and Emmyrc::pre_process_emmyrc) in which every Rust operation that can '
            'panic (indexing a non-object, expect("always an object"), byte slicing of a path) is an explicit Panic: for ALL lists of '
            'files (unreadable, invalid, or any JSON value with any hash iteration order), all client partials, any deserialiser, any '
            'environment and any path string, loading returns a configuration; unreadable/invalid files are skipped; only bad files '
            'give the defaults. The model is tied to the code by an exact correspondence check of load_configs_raw results and '
            'processed path lists, and the property is searched directly on the implementation (catch_unwind, several fresh processes).',
    "note": 'Trusted: Coq kernel; the hand model (validated by correspondence on sampled cases, not proved equal to the Rust); file '
            'reading, JSON parsing and the Lua config interpreter are abstracted to {unreadable, invalid, value}; stack depth/memory not '
            'modelled. Axioms: none.',
    "technique": "Coq proof (induction over key segments / files, panics explicit in the model) about a hand-written Gallina transcription "
                 "+ exact model-vs-implementation correspondence + oracle search under catch_unwind",
}

THEOREMS = [("load_total", "theorem"), ("path_total", "theorem"), ("nested_form_total", "theorem"), ("bad_file_skipped", "theorem"),
            ("all_bad_default", "theorem"), ("decode_error_default", "theorem"),
            ("load_total_example", "example"), ("bad_file_example", "example")]
SIGS = {"panic-key-is-value-and-prefix", "panic-path-slice", "panic-other", "no-configuration", "bad-file-not-skipped", "no-default-fallback"}


def report(ck):
    def f(v):
        if v["signature"] in SIGS:
            ck.violation(v["signature"], "%s on %s" % (v["what"], json.dumps(v["case"], ensure_ascii=False)[:400]), v["case"])
    return f


def replay(ck, binpath, path):
    data = json.load(open(path))
    for v in data.get("violations", []):
        rc, out, err = ck.run_bin(binpath, ["one", "--case-json", json.dumps(v["case"])])
        for l in jlines(out)[1:]:
            if l.strip():
                report(ck)(json.loads(l))


def main(argv):
    ck = Check("C31", argv)
    bins = ck.build_harness("vh_analysis", ["c31"])
    if ck.replay and bins:
        replay(ck, bins["c31"], ck.replay)
        ck.finish(trusted_base=TRUSTED)
    check_btreemap(ck)
    ok = ck.coq_make(["theories/C31/Props.vo", "theories/C31/Corr.vo"])
    if ok:
        ck.coq_gates(["Base", "C31"], THEOREMS, "EV.C31.Props")
    if bins:
        if ok or os.path.exists(os.path.join(COQ, "theories/C31/Corr.vo")):
            correspondence(ck, bins["c31"], ck.scale(500, 6000))
        if ck.broken:
            ck.deep = True
        run_search(ck, bins["c31"], ck.scale(4, 8), ck.scale(1000, 12000), ["--corpus", CORPUS31], report(ck))
    ck.finish(
        trusted_base=TRUSTED,
        rule="load cases: 0-3 files (JSON objects over a key space with dotted keys colliding with nested objects, empty segments, wrong "
             "types, arbitrary JSON values; typed settings in random flat/nested chunking; unreadable, non-UTF-8, malformed JSON, failing "
             "and succeeding Lua) plus optional client partials; path cases: 0-4 pieces out of ~,~/,~x,~é,./,$VAR,${VAR},{workspaceFolder},"
             "{env:X},{luarocks},braces, non-ASCII, in workspace roots / library and package items (with ignoreDir) / ignoreDir / resource "
             "paths; non-trivial = >=2 files, a dotted key, a bad file or a partial (load) / contains ~, $ or { (paths); distinct by case; "
             "the search runs in several fresh processes (fresh hash seeds)",
        assumptions=["configuration files nest less than serde_json's recursion limit (stack depth is not modelled)",
                     "the Lua configuration interpreter (luars sandbox) is abstracted: a .lua file is unreadable, invalid, or the table it returns",
                     "correspondence and search are sampled (they validate the model and look for replays; the theorems carry the all-inputs claim)"])
