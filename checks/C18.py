"""C18 — Generic functions return their instantiated argument types."""
import json
from vcheck import *

META = {
    "category": "proof",
    "text": "Theorems about a Gallina transcription of generic call inference (tpl_pattern_match with escape_alias and the "
            "first-candidate-wins substitutor, the literal-widening rule, instantiate_type_generic on the declared return "
            "type, the parameter loop of infer_generic_types_from_call, unwrapp_return_type): for EVERY pattern built from "
            "T, T[], table<K,V>, T? / unions, tuples and function types, every argument type and every substitutor state the "
            "matcher collects exactly the structural components of the argument (matcher_collects_components); for every "
            "signature and argument list the inferred call type is the declared return type with each type parameter "
            "replaced by the widened first component bound to it (instantiate_subst); and closed formulas for each template "
            "of the family (identity, T[], T[][], table<K,V> key/value/swap, T?, pairs, function-typed T, tuples) for all "
            "argument types. The model is tied to the code by an exact correspondence check on generated calls and the "
            "property is searched directly on the implementation with an independent substitution oracle.",
    "note": "Trusted: Coq kernel; the hand model (validated by the correspondence on generated calls, not proved equal to "
            "the Rust); arguments are locals with declared types; shapes the model declines (tuples / records / classes given "
            "to array or table parameters, unions or classes given to a function-typed parameter, union return types) are "
            "outside the theorem and skipped by the tie. Axioms: none.",
    "technique": "Coq proof (induction over patterns: stateful matcher = stateless component list with first-binding-wins) "
                 "about a hand-written Gallina transcription + exact model-vs-implementation correspondence + oracle search",
}

TRUSTED = [
    "Coq 8.16.1 kernel (coqc), vm_compute used in the Example and in the correspondence evaluation",
    "axioms: none (Print Assumptions: Closed under the global context for every theorem)",
    "hand-written model coq/theories/C18/Model.v of semantic/generic/tpl_pattern/mod.rs, type_substitutor.rs, widening.rs, "
    "instantiate_type/mod.rs, infer_call_generic.rs (parameter loop) and infer_call/mod.rs (unwrapp_return_type); tied by the "
    "correspondence check (harness c18.rs + C18/Corr.v)",
    "modelling assumptions: the generic parameters are plain (not const, no constraint / default); the callee is a local "
    "function with one signature; argument expressions are locals whose declared type is the argument type",
    "search oracle: an independent Rust implementation of 'declared return with T := widened first argument component'",
]

THEOREMS = [("matcher_collects_components", "theorem"), ("instantiate_subst", "theorem"),
            ("identity_returns_argument", "theorem"), ("array_element", "theorem"), ("table_key_value", "theorem"),
            ("optional_parameter", "theorem"), ("pairs", "theorem"), ("function_typed_parameter", "theorem"),
            ("subst_example", "example")]

ENV_COQ = ('[(%s, TPrim PString); (%s, TUnion UMulti [TStr %s; TStr %s])]'
           % (coq_text("AliS"), coq_text("AliU"), coq_text("x"), coq_text("y")))

PRIMS = {"unknown": "PUnknown", "any": "PAny", "nil": "PNil", "table": "PTable", "userdata": "PUserdata",
         "function": "PFunction", "thread": "PThread", "boolean": "PBoolean", "string": "PString", "integer": "PInteger",
         "number": "PNumber", "io": "PIo", "self": "PSelf", "global": "PGlobal", "never": "PNever"}


class Outside(Exception):
    pass


def cpl(cps):
    return coq_list([str(x) for x in cps])


def ty_coq(t):
    k = t["k"]
    if k == "prim":
        return "(TPrim %s)" % PRIMS[t["p"]]
    if k == "str":
        return "(TStr %s)" % cpl(t["s"])
    if k == "int":
        return "(TInt (%s)%%Z)" % t["i"]
    if k == "bool":
        return "(TBool %s)" % ("true" if t["b"] else "false")
    if k == "ref":
        return "(TRef %s)" % cpl(t["n"])
    if k == "tableconst":
        return "TTableConst"
    if k == "array":
        return "(TArray %s)" % ty_coq(t["t"])
    if k == "tgen":
        return "(TTableGeneric %s)" % coq_list([ty_coq(x) for x in t["ps"]])
    if k == "tuple":
        return "(TTuple %s)" % coq_list([ty_coq(x) for x in t["ts"]])
    if k == "fun":
        ps = ["(%s, %s)" % (cpl(n), "None" if p is None else "(Some %s)" % ty_coq(p)) for n, p in t["ps"]]
        return "(TFun %s %s)" % (coq_list(ps), ty_coq(t["ret"]))
    if k == "union":
        u = {"basic": "UBasic", "nullable": "UNullable", "multi": "UMulti"}[t["u"]]
        return "(TUnion %s %s)" % (u, coq_list([ty_coq(x) for x in t["ms"]]))
    raise Outside()


def case_to_coq(c):
    try:
        args = "(Some %s)" % coq_list([ty_coq(a) for a in c["arg_types"]])
        if len(c["arg_types"]) != len(c["args"]):
            args = "None"
    except Outside:
        args = "None"
    try:
        ret = "(Some %s)" % ty_coq(c["ret"])
    except Outside:
        ret = "None"
    return "{| c_env := env0; c_tpl := %d; c_args := %s; c_ret := %s |}" % (c["tpl"], args, ret)


def coq_eval_batch(ck, name, case_terms, requires, fns=("check_case",), nshard=4, timeout=1200, prelude=""):
    """Evaluate boolean functions of Corr.v on every case term with vm_compute; the generated files are only interpreted
    (coqtop -batch -l, no .vo is written).  Returns {fn: sorted indices where fn is false} or None."""
    from concurrent.futures import ThreadPoolExecutor
    n = len(case_terms)
    if n == 0:
        return {f: [] for f in fns}
    nshard = max(1, min(nshard, n // 50 or 1))
    idxs = [list(range(i, n, nshard)) for i in range(nshard)]

    def run(k):
        ids = idxs[k]
        path = os.path.join(ck.work, "%s_%d.v" % (name, k))
        with open(path, "w") as fh:
            for r in requires:
                fh.write("Require Import %s.\n" % r)
            fh.write("Local Open Scope N_scope.\n" + prelude + "\n")
            fh.write("Definition cases__ : list case := [\n%s].\n" % ";\n".join(case_terms[i] for i in ids))
            for f in fns:
                fh.write("Definition failing_%s := (fix go (cs : list case) (i : N) : list N := match cs with [] => [] | c :: r => "
                         "if %s c then go r (i + 1) else i :: go r (i + 1) end) cases__ 0.\n" % (f, f))
                fh.write("Eval vm_compute in (%d, failing_%s).\n" % (fns.index(f), f))
        rc, out, err = sh(["coqtop", "-batch", "-Q", os.path.join(COQ, "theories"), "EV", "-l", path], cwd=ck.work, timeout=timeout)
        return rc, out + err

    with ThreadPoolExecutor(max_workers=nshard) as ex:
        results = list(ex.map(run, range(nshard)))
    res = {f: [] for f in fns}
    bad = False
    for (rc, out), ids in zip(results, idxs):
        found = re.findall(r"=\s*\((\d+),\s*\[(.*?)\]\)\s*:\s*N \* list N", out, re.S)
        if rc != 0 or "Error" in out or len(found) != len(fns):
            ck.tie_broken("correspondence evaluation %s did not compile/finish (model or checker broken)" % name, out[-3000:])
            bad = True
            continue
        for k, body in found:
            for x in re.findall(r"\d+", body):
                res[fns[int(k)]].append(ids[int(x)])
    return None if bad else {f: sorted(v) for f, v in res.items()}


def correspondence(ck, binpath, n):
    rc, out, err = ck.run_bin(binpath, ["corr", "--seed", ck.seed, "--n", n])
    if rc != 0:
        ck.tie_broken("harness c18 corr failed", err[-2000:])
        return
    cases = [json.loads(l) for l in out.split("\n") if l.strip()]
    cases = [c for c in cases if not c.get("panic")]
    terms = [case_to_coq(c) for c in cases]
    prelude = "Definition env0 : env := %s.\n" % ENV_COQ
    res = coq_eval_batch(ck, "corr", terms, ["EV.C18.Model", "EV.C18.Spec", "EV.C18.Corr"], fns=("check_case", "defined_case"),
                         prelude=prelude)
    if res is None:
        return
    for i in res["check_case"][:10]:
        c = cases[i]
        ck.tie_broken("model/implementation disagreement on template %s called with %r" % (c.get("name"), c["args"]),
                      json.dumps(c)[:3000])
    ck.cov["traces_validated_against_impl"] += len(terms)
    for c in cases:
        ck.count_case(("corr", c["tpl"], tuple(c["args"])), nontrivial=any(len(a) > 3 for a in c["args"]))
    answered = len(cases) - len(res["defined_case"])
    ck.cov["distribution"]["corr_cases"] = len(cases)
    ck.cov["distribution"]["corr_model_answers"] = answered
    if cases:
        c = cases[min(len(cases) - 1, 80)]
        ck.sample({"kind": "correspondence case", "template": c.get("name"), "argument annotations": c["args"], "inferred": c["ret"]})
    if answered < len(cases) // 2:
        ck.tie_broken("the model answers fewer than half of the generated calls (it no longer covers the template family)",
                      "%d of %d" % (answered, len(cases)))


def search(ck, binpath, n):
    rc, out, err = ck.run_bin(binpath, ["search", "--seed", ck.seed, "--n", n])
    if rc != 0:
        ck.tie_broken("harness c18 search failed", err[-2000:])
        return
    for l in out.split("\n"):
        if not l.strip():
            continue
        v = json.loads(l)
        if "summary" in v:
            s = v["summary"]
            ck.cov["distribution"]["search"] = s
            ck.add_measured(s["checked"], s["distinct_nontrivial"])
            continue
        ck.violation(v["signature"], v["what"], {"tpl": v.get("tpl"), "args": v.get("args")})
        ck.sample({"kind": "search violation", "signature": v["signature"], "args": v.get("args"), "got": v.get("got"),
                   "expected": v.get("expected")})


def replay(ck, binpath, path):
    data = json.load(open(path))
    for v in data.get("violations", []):
        case = v["case"]
        if case.get("tpl") is None:
            continue
        rc, out, err = ck.run_bin(binpath, ["one", "--tpl", case["tpl"], "--args", ";".join(case["args"])])
        for l in out.split("\n"):
            if not l.strip():
                continue
            vv = json.loads(l)
            if vv.get("agrees") is False:
                ck.violation(v["signature"], "template %s called with %r: inferred %s but expected %s"
                             % (vv.get("name"), case["args"], json.dumps(vv.get("ret")), json.dumps(vv.get("expected"))), case)


def main(argv):
    ck = Check("C18", argv)
    bins = ck.build_harness("vh_analysis", ["c18"])
    if ck.replay and bins:
        replay(ck, bins["c18"], ck.replay)
        ck.finish(trusted_base=TRUSTED)
    ok = ck.coq_make(["theories/C18/Props.vo", "theories/C18/Corr.vo"])
    if ok:
        ck.log("gates")
        ck.coq_gates(["C18"], THEOREMS, "EV.C18.Props")
    if bins:
        ck.log("correspondence")
        if ok or os.path.exists(os.path.join(COQ, "theories/C18/Corr.vo")):
            correspondence(ck, bins["c18"], ck.scale(2000, 30000))
        if ck.broken:
            ck.deep = True
        ck.log("search")
        search(ck, bins["c18"], ck.scale(12000, 300000))
    ck.finish(
        trusted_base=TRUSTED,
        rule="calls `local r = f(a1, ..)` of 15 `---@generic` signature templates (identity, T[], T[][], wrap, table<K,V> "
             "value/key/swap, T?, pair, same parameter twice, fun(): T, fun(x: T), tuple projection / construction) with argument "
             "locals whose declared types are generated from the annotation grammar (primitives, literals, classes, aliases, "
             "arrays, table<..>, tuples, unions, optionals, function types; mostly of the matching shape, one in five arbitrary), "
             "hand-written cases first; non-trivial = some argument annotation longer than 3 characters; distinct by template and "
             "argument types modulo union order",
        assumptions=["correspondence and search are sampled (they validate the model and look for replays; the theorems carry the "
                     "all-arguments claim)"])
