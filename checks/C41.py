from flow_common import *

META = {
    "category": "proof",
    "text": 'On the fragment of C15 extended with while, while true, repeat..until, numeric for and conditional break: the target statement '
            'loop_exit_sound (after a loop the inferred type of x contains the type of every value x can hold) is REFUTED for the current code by '
            'three machine-checked witnesses (while_exit_refuted — the property\'s own example, first_pass_refuted, repeat_break_refuted), each '
            're-confirmed on the real analyzer on every run (KNOWN-FINDING), and loop_exit_sound_outside_known proves the same statement for every '
            'program, variable and execution outside the decidable class known_var (a while with non-literal condition whose body assigns x; an '
            'entered loop whose body tests and assigns x; a repeat whose body assigns x and can break). Model tied to the code by the exact '
            'correspondence of C15 on loop programs (probes inside and after loops); the search reports any unsound narrowing after a loop whose '
            'shape is not one of the three recorded ones.',
    "note": 'Loops: while with non-literal condition, `while true`, repeat, numeric for with literal bounds and unused loop variable, `if c then .. '
            'break end`, plus everything of C15\'s fragment inside and around loops (flipped comparisons, assert, early return/error); no generic for, no continue/goto. Probes inside loop bodies are compared with the model (tie) but are outside the property '
            '(C41 speaks about points after loops). The semantics is fuelled; the theorem also holds for the prefixes of runs that exhaust the fuel. '
            'Trusted: Coq kernel, the hand model (shared with C15), no Lua VM. Axioms: none. The K1 repair (merging the body into the post-loop '
            'flow) was tried and rejected: it breaks the pinned test test_dynamic_while_post_flow_ignores_body_assignment_for_print_arg.',
    "technique": "Coq proof (simulation with a strict and a relaxed per-variable invariant to cover re-executed loop bodies) + refutation witnesses by "
                 "vm_compute + exact model-vs-implementation correspondence + exhaustive-oracle search with shape signatures",
}

THEOREMS = [("loop_exit_sound_outside_known", "theorem"), ("while_exit_refuted", "refutation"), ("first_pass_refuted", "refutation"),
            ("repeat_break_refuted", "refutation"), ("loops_example", "example")]


def mine(sig):
    return True


def main(argv):
    ck = Check("C41", argv)
    bins = ck.build_harness("vh_analysis", ["c15"])
    if ck.replay and bins:
        replay(ck, bins["c15"], ck.replay, mine)
        ck.finish(trusted_base=TRUSTED)
    ok = ck.coq_make(["theories/C41/Props.vo", "theories/C15/Corr.vo"])
    if ok:
        ck.coq_gates(["C15", "C41"], THEOREMS, "EV.C41.Props")
    if bins:
        if ok or os.path.exists(os.path.join(COQ, "theories/C15/Corr.vo")):
            correspondence(ck, bins["c15"], ck.scale(1000, 20000), loops=True)
        if ck.broken:
            ck.deep = True
        search(ck, bins["c15"], ck.scale(12000, 300000), True, mine)
        # the property's own example through the real diagnostics (informative: it is an instance of the K1 finding)
        rc, out, err = ck.run_bin(bins["c15"], ["diag"])
        if rc == 0 and out.strip():
            d = json.loads(jlines(out)[-1])
            ck.cov["distribution"]["property_example_diagnostics"] = d["codes"]
            ck.sample({"kind": "the property's example through diagnose_file", "text": d["text"], "diagnostic_codes": d["codes"]})
    ck.finish(
        trusted_base=TRUSTED,
        rule="programs of the loop fragment from a seeded structural generator (1-3 locals, <= 14 statements, nesting <= 3, <= 4 opaque "
             "conditions, loops of the four forms with conditional breaks), hand-written witnesses first; the search runs every program under all "
             "2^8 oracle prefixes with 12 iterations of fuel per loop and compares the reachable tags at every probe that is not inside a loop with "
             "the analyzer's type; non-trivial = contains a conditional and a probe; distinct by program text",
        assumptions=["correspondence and search are sampled (they validate the model and look for replays; the theorems carry the all-programs claim)",
                     "runs that exhaust the fuel are dropped by the search; oracles are the 256 prefixes of length 8 (false afterwards)",
                     "unknown/any inferred types are treated as admitting every value by the search oracle"])
