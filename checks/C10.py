from store_common import *

META = {
    "category": "proof",
    "text": 'Coq proves for LuaModuleIndex (refinement shared with C33, driver of Base/StoreSM.v), for EVERY history: after remove_file_by_uri(f) no container of the index holds the file id f (remove_no_mention: file-map keys and records, node file lists, fuzzy-name lists) and the index is — in every answer and every container count — what it would be had f never been submitted (remove_frees: equal to the history with all operations on f deleted; this is the memory-release statement and rules out the leaked leaf node / stale fuzzy entry that the unfixed code had). The same two theorems hold for LuaGlobalIndex (global_remove_frees) and for the product store LuaModuleIndex x LuaGlobalIndex x DiagnosticIndex (product_remove_no_mention, product_remove_frees). For the LuaGlobalIndex, DiagnosticIndex, LuaPropertyIndex and LuaTypeIndex (namespaces, file_types, declaration locations, super clauses) transcriptions: after remove(f) no stored id carries f — for a type still declared by another file neither its locations nor its super clauses — and no emptied entry survives. The tables regenerated from source prove that every fact container of every index is touched by its remove(). The models are tied by exact correspondence; the whole analysis is searched end-to-end: after a removal no line of the full observable dump (diagnostics, definitions, references, dependency edges, globals, types, members, docs, require resolution) may mention the removed file, and adding a file to an analysis of the other files and removing it again must give back every H2 container count AND every line of the dump (supers, members, inferred types, docs of the entities the file contributed to), outside the recorded finding.',
    "note": 'Modelled and proved for all histories (StoreSM refinements): LuaModuleIndex, LuaGlobalIndex, DiagnosticIndex and their product (product_remove_no_mention, product_remove_frees); LuaMemberIndex transcribed and tied (removal rule proved in C08); LuaReferenceIndex cross-file maps (global_references, index_reference) transcribed, tied, state-level removal theorems. Also: LuaGlobalIndex, DiagnosticIndex, LuaPropertyIndex, LuaTypeIndex per-file part (state-level theorems, all four tied by correspondence). Other indexes: table obligations + end-to-end search. Completion items and workspace symbols are LS-level and are covered through the indexes they read (globals, types, members). Known open findings: LuaDependencyIndex keeps the edge of a surviving file to the removed file; JsonSchemaIndex entries are never removed; removing a file erases the hover description other files gave a shared class. Axioms: none.',
    "technique": "Coq refinement proof over all histories + table obligations regenerated from source + exact model-vs-implementation correspondence + end-to-end search (mention scan and add/remove round trip of container counts)",
}

THEOREMS = [("remove_no_mention", "theorem"), ("remove_frees", "theorem"), ("diagnostic_remove_no_mention", "theorem"),
            ("global_remove_no_mention", "theorem"), ("global_remove_no_empty", "theorem"), ("property_remove_no_file", "theorem"),
            ("type_remove_no_mention", "theorem"), ("type_remove_file_maps", "theorem"),
            ("product_remove_no_mention", "theorem"), ("product_remove_frees", "theorem"), ("global_remove_frees", "theorem"),
            ("reference_remove_no_mention", "theorem"), ("reference_remove_no_empty", "theorem"),
            ("remove_example", "example")]
TABLES = [("index_containers_touched_by_remove_outside_known", "table"), ("dbindex_fields_all_cleared_and_removed", "table")]
PROPS = {"C10"}


def main(argv):
    ck = Check("C10", argv)
    attach_findings(ck)
    bins = ck.build_harness("vh_analysis", ["c08", "c33"])
    if ck.replay and bins:
        replay(ck, bins["c08"], ck.replay, PROPS)
        ck.finish(trusted_base=TRUSTED)
    regenerate_tables(ck)
    ok = ck.coq_make(COQ_TARGETS)
    if ok:
        ck.coq_gates(["Base", "C33", "C08", "C10"], THEOREMS, "EV.C10.Props")
        ck.coq_gates(["C09", "Gen"], TABLES, "EV.C09.Props")
    if bins:
        if os.path.exists(os.path.join(COQ, "theories/C08/Corr.vo")):
            index_correspondence(ck, bins["c08"], ck.scale(60, 1000))
        if os.path.exists(os.path.join(COQ, "theories/C33/Corr.vo")):
            module_correspondence(ck, bins["c33"], ck.scale(60, 2500), label="modcorr")
        if ck.broken:
            ck.deep = True
        search(ck, bins["c08"], ck.scale(1500, 60000), PROPS)
    ck.finish(
        trusted_base=TRUSTED,
        rule="correspondence as for C08 (the remove ops are the ones that matter here); search: the C08 workspaces and histories; at every `remove` step "
             "(a) the full dump of the remaining analysis is scanned for the removed file's path / a file id without a path, (b) on a fresh analysis of the "
             "surviving files the removed file is added and removed again and every H2 container count must return to its value; non-trivial = the case "
             "reached a judged step; distinct by case",
        assumptions=ASSUMPTIONS)
