from lineindex_common import *

META = {
    "category": "proof",
    "text": 'Theorems about the Gallina transcription of LineIndex/LuaDocument for ALL texts, offsets and positions: round trip on every character boundary, missing line -> nothing, any column clamps to an in-document boundary on the requested line, no conversion panics, range round trip. The model is tied to the code by an exact correspondence check (every offset and a position grid per generated text) and the property is searched directly on the implementation.',
    "note": 'Trusted: Coq kernel; the hand model (validated by correspondence on sampled texts, not proved equal to the Rust); texts < 4 GiB. Axioms: none.',
    "technique": "Coq proof (induction over texts) about a hand-written Gallina transcription + exact model-vs-implementation correspondence + oracle search",
}

THEOREMS = [("offset_pos_roundtrip", "theorem"), ("missing_line_none", "theorem"), ("clamp_to_line", "theorem"),
            ("conversions_never_panic", "theorem"), ("range_roundtrip", "theorem"), ("roundtrip_example", "example")]
SIGS = {"roundtrip", "pos-panic", "pos-none", "off-panic", "off-none", "missing-line-some", "off-past-end",
        "off-not-on-line", "off-not-boundary"}


def main(argv):
    ck = Check("C22", argv)
    bins = ck.build_harness("vh_analysis", ["c22"])
    if ck.replay and bins:
        replay(ck, bins["c22"], ck.replay, SIGS)
        ck.finish(trusted_base=TRUSTED)
    ok = ck.coq_make(["theories/C22/Props.vo", "theories/C22/Corr.vo"])
    if ok:
        ck.coq_gates(["Base", "C22"], THEOREMS, "EV.C22.Props")
    if bins:
        if ok or os.path.exists(os.path.join(COQ, "theories/C22/Corr.vo")):
            correspondence(ck, bins["c22"], ck.scale(400, 1600), ck.scale(20, 32))
        if ck.broken:
            ck.deep = True
        search(ck, bins["c22"], ck.scale(4000, 200000), ck.scale(24, 48), SIGS)
    ck.finish(
        trusted_base=TRUSTED,
        rule="texts over an alphabet of ASCII, LF, CR, 2/3/4-byte characters, U+2028/U+0085 (10 generator modes); per text every "
             "byte offset 0..len+2 and a (line, col) grid incl. lines past the end and cols 0..len+2,100,65535,2^32-1; "
             "non-trivial = text contains a line terminator or a non-ASCII character; distinct by text",
        assumptions=["texts shorter than 4 GiB", "correspondence and search are sampled (they validate the model and look for replays; the theorems carry the all-inputs claim)"])
