from scoping_common import *

META = {
    "category": "proof",
    "text": 'Theorem impl_resolver_eq_reference: for EVERY program of a mini-Lua fragment (local with several names/values, local with a <const>/<close> attribute, assignment, call statements, local function, function statements incl. dotted names and methods with implicit self, closures with parameters, numeric and generic for, repeat-until, while, do, if/elseif/else, return, labels and goto; expressions: numbers, strings, names, field access, calls, method calls e:m(args), binary operators, function expressions, table constructors with positional fields) and every name use in it, the Gallina transcription of the implementation (the pre-order declaration walk of DeclAnalyzer building LuaDeclarationTree scopes and resolving each name, when the walk enters it, with find_scope / visit_visible_decls / search_scope_children / visit_child_scope) selects exactly the declaration that the reference resolver (environment-passing lexical scoping as the Lua manual states it) selects, or the global. printer_positions_exact: the positions both resolvers use are the offsets of the printed text; name_text_injective: different names of the model print as different identifiers. The transcription is tied to the code per run by an exact correspondence (printed text, complete scope tree with kinds/ranges/declarations, reference-index entry of every NameExpr token) and the property is searched directly on the implementation against an independent Rust reference resolver, including SemanticModel::find_decl on every name token.',
    "note": 'Trusted: Coq kernel; the hand model of decl_tree.rs and analyzer/decl (validated by the correspondence on generated programs, not proved equal to the Rust); the parser on the fragment (token positions are compared per case). The theorem covers the fragment\'s programs printed by the model\'s printer; syntax outside it (table fields with keys, string-call/table-call syntax, varargs, comments and doc annotations, `_`/`_G`/`_ENV`, other operators) is only searched through the corpus. Axioms: none.',
    "technique": "Coq proof (simulation between a zipper model of the declaration tree and environment-passing scoping, by mutual induction over the syntax) + exact model-vs-implementation correspondence + differential search against a reference resolver",
}

THEOREMS = [
    ("impl_resolver_eq_reference", "theorem"),
    ("impl_resolver_eq_reference_at", "theorem"),
    ("printer_positions_exact", "theorem"),
    ("name_text_injective", "theorem"),
    ("resolver_example", "example"),
]


def main(argv):
    ck = Check("C13", argv)
    bins = ck.build_harness("vh_analysis", ["c13"])
    if ck.replay and bins:
        replay13(ck, bins["c13"], ck.replay)
        ck.finish(trusted_base=TRUSTED13)
    ok = ck.coq_make(["theories/C13/Props.vo", "theories/C13/Corr.vo"])
    if ok:
        ck.coq_gates(["C13"], THEOREMS, "EV.C13.Props")
    if bins:
        if ok or os.path.exists(os.path.join(COQ, "theories/C13/Corr.vo")):
            correspondence13(ck, bins["c13"], ck.scale(400, 6000))
        if ck.broken:
            ck.deep = True
        search13(ck, bins["c13"], ck.scale(6000, 120000))
    ck.finish(
        trusted_base=TRUSTED13,
        rule="programs of the mini-Lua fragment: 18 hand-written witnesses (the reproduced defects and the tricky scoping shapes), the "
             "corpus, then seeded random programs over alphabets of 2-6 names (small alphabets force shadowing), nesting depth 2-4, "
             "printed by the model's printer; every name use of every program is compared; non-trivial = some name is declared more "
             "than once and at least one use resolves to a local; distinct by program text",
        assumptions=["the fragment's names are never `_`, `_G`, `_ENV`, `...` (the analyzer treats them specially; not part of the property's fragment)",
                     "correspondence and search are sampled (they validate the model and look for replays; the theorem carries the all-programs claim)"])
