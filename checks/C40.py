"""C40 — JSON-schema conversion emits valid annotations.

  proof : coq/theories/C40 (emitter line constructors, string literal / name rendering against a model of the doc lexer,
          type-expression grammar, walker totality)
  tie   : harness vh_fmt/c40 `corr`: the real SchemaConverter and the Gallina [convert] on the same generated schemas,
          outputs compared character for character inside Coq (EV.C40.Corr.check_case)
  search: harness `search`: output of the real converter parsed by the real LuaParser: no panic, no parse error, root declared
"""
import json
from vcheck import *

META = {
    "category": "proof",
    "text": "Gallina transcription of the whole converter (emitter line constructors, quote_lua_string, sanitize_type_name, "
            "doc_comment_lines, needs_bracket_notation, the LuaType algebra with parenthesised unions, resolve_type and the emit_* walker) "
            "and of the parts of the EmmyLua doc lexer / string decoder that read its output. Theorems for ALL names, values, "
            "descriptions and schemas: an emitted string literal is read by the lexer as exactly one closed string token, contains no "
            "raw quote / line break / NUL and decodes back to the value; a sanitised type name is read as exactly one name token; "
            "description lines contain no line break and never start a tag, and the first non-blank line of a field description never continues the preceding tag; every type text is in the grammar in which `?` and `[]` "
            "only follow an atom (unions parenthesised); every line of the output has one of the seven well-formed shapes; the "
            "reported root type is declared; the walker terminates on every schema ($ref is never followed). Tie: model output = "
            "implementation output on generated schemas (evaluated in Coq). Search: real converter + real LuaParser oracle.",
    "note": "Trusted: Coq kernel; the hand transcription (validated by exact output comparison on sampled schemas); the line/grammar "
            "predicates are a specification of what the doc parser accepts, tied to the real parser only by the search; the Unicode "
            "classes is_alphabetic/is_alphanumeric are parameters (same std functions on both sides). Axioms: none.",
    "technique": "Coq proof (induction over texts/schemas, lexer model) about a hand-written Gallina transcription + exact model-vs-implementation correspondence + parser-oracle search",
}

THEOREMS = [("string_literal_one_token", "theorem"), ("string_literal_clean", "theorem"), ("string_literal_roundtrip", "theorem"),
            ("old_quote_refuted", "refutation"), ("type_name_one_token", "theorem"), ("doc_lines_ok", "theorem"), ("field_description_guarded", "theorem"),
            ("field_line_ok", "theorem"), ("class_line_ok", "theorem"), ("alias_lines_ok", "theorem"),
            ("resolve_type_wf", "theorem"), ("optional_binds_whole_union", "theorem"),
            ("convert_lines_ok", "theorem"), ("convert_declares_root", "theorem"), ("convert_total", "theorem"),
            ("convert_example", "example")]

TRUSTED = [
    "Coq 8.16.1 kernel (coqc); vm_compute in Examples, the refutation witness and the correspondence evaluation; no native_compute",
    "axioms: none (Print Assumptions: Closed under the global context for every theorem)",
    "hand-written model coq/theories/C40/Model.v of crates/schema_to_emmylua/src/{lua_emitter,converter,schema_walker,markdown_doc}.rs, "
    "tied by exact comparison of annotation_text and root_type_name (harness vh_fmt/src/bin/c40.rs + coq/theories/C40/Corr.v)",
    "model of the doc lexer's string and name branches (lua_doc_lexer.rs lex_normal / read_doc_name) and of normal_string_value; the "
    "line shapes and the type grammar of C40/Spec.v as the statement of what the doc parser accepts (checked against the real parser "
    "by the search only)",
    "modelling assumptions: String = list of chars; serde_json objects iterate in key order (BTreeMap, no preserve_order); numbers "
    "are irrelevant to the converter; char::is_alphabetic/is_alphanumeric are parameters that agree with ASCII below 128 and "
    "alphabetic => alphanumeric",
]


def coq_json(v):
    if v is None:
        return "JNull"
    if v is True:
        return "(JBool true)"
    if v is False:
        return "(JBool false)"
    if isinstance(v, int):
        return "(JNum (%d)%%Z)" % v
    if isinstance(v, float):
        return "(JNum 0%Z)"
    if isinstance(v, str):
        return "(JStr %s)" % coq_text(v)
    if isinstance(v, list):
        return "(JArr %s)" % coq_list([coq_json(x) for x in v])
    if isinstance(v, dict):
        return "(JObj %s)" % coq_list(["(%s, %s)" % (coq_text(k), coq_json(v[k])) for k in sorted(v.keys())])
    raise ValueError(type(v))


def case_term(c):
    return "{| c_schema := %s; c_alpha := %s; c_alnum := %s; c_text := %s; c_root := %s |}" % (
        coq_json(c["schema"]), coq_list([str(x) for x in c["alpha"]]), coq_list([str(x) for x in c["alnum"]]),
        coq_text(c["text"]), coq_text(c["root"]))


CORPUS = os.path.join(VERIF, "corpus", "C40", "schemas.json")


def correspondence(ck, binpath, n):
    rc, out, err = ck.run_bin(binpath, ["corr", "--seed", ck.seed, "--n", n, "--corpus", CORPUS])
    if rc != 0:
        ck.tie_broken("harness c40 corr failed", err[-2000:])
        return
    cases = [json.loads(l) for l in out.split("\n") if l.strip()]
    good = []
    for c in cases:
        if c.get("panic"):
            ck.tie_broken("the converter panicked in the correspondence run", json.dumps(c["schema"])[:1500])
        else:
            good.append(c)
    failing = ck.coq_failing("corr", [case_term(c) for c in good], ["EV.C40.Model", "EV.C40.Corr"], per_shard=25, timeout=1500)
    for i in failing or []:
        c = good[i]
        ck.tie_broken("model/implementation disagreement on the annotation text for schema %s" % json.dumps(c["schema"])[:300],
                      json.dumps(c)[:4000])
    for c in good:
        s = json.dumps(c["schema"], sort_keys=True)
        ck.count_case(("corr", s), nontrivial=("properties" in s or "$defs" in s or "enum" in s or "Of" in s))
    ck.cov["distribution"]["corr_schemas"] = len(good)
    ck.cov["distribution"]["corr_output_chars"] = sum(len(c["text"]) for c in good)
    if good:
        c = good[min(len(good) - 1, 9)]
        ck.sample({"kind": "correspondence case", "schema": c["schema"], "annotation_text": c["text"][:600], "root": c["root"]})


def report(ck, v):
    ck.violation(v["signature"], "%s; schema %s" % (v["what"], json.dumps(v["schema"])[:400]),
                 {"schema": v["schema"], "what": v["what"], "text": v.get("text", "")[:3000]})


def search(ck, binpath, n):
    rc, out, err = ck.run_bin(binpath, ["search", "--seed", ck.seed, "--n", n, "--corpus", CORPUS], timeout=2400)
    if rc != 0:
        ck.tie_broken("harness c40 search failed", err[-2000:])
        return
    for l in out.split("\n"):
        if not l.strip():
            continue
        v = json.loads(l)
        if "summary" in v:
            ck.cov["distribution"]["search"] = v["summary"]
            ck.add_measured(v["summary"]["cases"], v["summary"]["distinct_nontrivial"])
            continue
        report(ck, v)
    # one sample of what the search looks at
    rc, out, err = ck.run_bin(binpath, ["one", "--schema", json.dumps(
        {"title": "My Config", "properties": {"a\"b": {"type": "string"}, "e": {"enum": ["p\"q", "r"]}, "public": {"type": ["integer", "null"]}},
         "additionalProperties": {"type": "number"}, "$defs": {"A B": {"enum": [1]}}})])
    if rc == 0 and out.strip():
        o = json.loads(out.split("\n")[0])
        ck.sample({"kind": "search case", "schema": o["schema"], "annotation_text": o["text"], "errors": o["errors"], "declared": o["declared"], "root": o["root"]})


def replay(ck, binpath, path):
    data = json.load(open(path))
    for v in data.get("violations", []):
        rc, out, err = ck.run_bin(binpath, ["one", "--schema", json.dumps(v["case"]["schema"])])
        for l in out.split("\n")[1:]:
            if l.strip():
                report(ck, json.loads(l))


def main(argv):
    ck = Check("C40", argv)
    bins = ck.build_harness("vh_fmt", ["c40"])
    if ck.replay and bins:
        replay(ck, bins["c40"], ck.replay)
        ck.finish(trusted_base=TRUSTED)
    ok = ck.coq_make(["theories/C40/Props.vo", "theories/C40/Corr.vo"])
    if ok:
        ck.coq_gates(["C40"], THEOREMS, "EV.C40.Props")
    if bins:
        if ok or os.path.exists(os.path.join(COQ, "theories/C40/Corr.vo")):
            correspondence(ck, bins["c40"], ck.scale(300, 3000))
        if ck.broken:
            ck.deep = True
        search(ck, bins["c40"], ck.scale(20000, 400000))
    ck.finish(
        trusted_base=TRUSTED,
        rule="schemas from a structured generator (objects with properties/required/additionalProperties, arrays, enums with "
             "non-string members, const, oneOf of consts and mixed, anyOf with null, allOf, $ref to existing/missing/odd targets, nested "
             "$defs, type arrays; names and descriptions drawn from plain and odd pools: quotes, backslashes, line breaks, NUL, "
             "unicode, doc-syntax keywords, leading '@'), a 10% malformed stream (wrongly typed members, non-object roots) and the "
             "corpus; non-trivial = has a property, a definition, an enum or a combinator; distinct by JSON text",
        assumptions=["schemas nested deeper than the native stack allows are outside the search (the theorem convert_total is about the model)",
                     "correspondence and search are sampled; the theorems carry the all-inputs claim for the modelled lexical layer, the "
                     "real parser's acceptance of the proved line shapes is established by the search only"])
