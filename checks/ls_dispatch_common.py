"""shared by C24 and C27: translators that regenerate the LSP dispatch tables from /repo's source

  request table      crates/emmylua_ls/src/handlers/request_handler.rs   (dispatch_request! invocation + macro body)
  task wrapper       crates/emmylua_ls/src/context/mod.rs                 (ServerContext::task: is a handler panic answered)
  initialize         crates/emmylua_ls/src/server/mod.rs                  (run_ls: unwrap on InitializeParams?)
  init queue         crates/emmylua_ls/src/server/message_processor.rs   (can_process_during_init)
  notification table crates/emmylua_ls/src/handlers/notification_handler.rs (dispatch_notification!: sync / async lists)

Only shapes for which a syntactic reading is exact are translated (lists of `Type => handler`, presence of an error
branch, literal method lists).  Every extractor raises Anchor when the shape it reads is not there any more.
"""
import glob
import os
import re
from vcheck import REPO, COQ, VERIF, section_aware_forbidden

LS = os.path.join(REPO, "crates", "emmylua_ls", "src")


class Anchor(Exception):
    pass


def _read(rel):
    p = os.path.join(LS, rel)
    if not os.path.exists(p):
        raise Anchor("file missing: crates/emmylua_ls/src/" + rel)
    return open(p, encoding="utf8").read()


def _strip_comments(src):
    src = re.sub(r"/\*.*?\*/", "", src, flags=re.S)
    return re.sub(r"//[^\n]*", "", src)


def _balanced(src, start, open_ch="{", close_ch="}"):
    """src[start] is open_ch; returns index just after the matching close"""
    depth = 0
    i = start
    n = len(src)
    while i < n:
        c = src[i]
        if c == '"':
            i += 1
            while i < n and src[i] != '"':
                i += 2 if src[i] == "\\" else 1
        elif c == open_ch:
            depth += 1
        elif c == close_ch:
            depth -= 1
            if depth == 0:
                return i + 1
        i += 1
    raise Anchor("unbalanced %s%s" % (open_ch, close_ch))


def _lsp_types_dir():
    lock = open(os.path.join(REPO, "Cargo.lock"), encoding="utf8").read()
    m = re.search(r'name = "emmy_lsp_types"\s*\nversion = "([^"]+)"', lock)
    if not m:
        raise Anchor("emmy_lsp_types not in Cargo.lock")
    ds = glob.glob(os.path.expanduser("~/.cargo/registry/src/*/emmy_lsp_types-%s/src" % m.group(1)))
    if not ds:
        raise Anchor("emmy_lsp_types sources not in the cargo registry")
    return ds[0]


_method_cache = {}


def _method_consts(kind):
    """{TypeName: METHOD} for all `impl Request for T` (kind='Request') / `impl Notification for T`"""
    if kind in _method_cache:
        return _method_cache[kind]
    out = {}
    files = [os.path.join(_lsp_types_dir(), "request.rs" if kind == "Request" else "notification.rs")]
    for root, _, names in os.walk(os.path.join(LS, "handlers")):
        files += [os.path.join(root, n) for n in names if n.endswith(".rs")]
    for f in files:
        src = open(f, encoding="utf8").read()
        for m in re.finditer(r"impl\s+(?:\w+::)*(?:%s|Lsp%s)\s+for\s+(\w+)\s*\{" % (kind, kind), src):
            end = _balanced(src, m.end() - 1)
            mm = re.search(r'const\s+METHOD\s*:\s*&\s*\'static\s+str\s*=\s*"([^"]*)"', src[m.end():end])
            if mm:
                out[m.group(1)] = mm.group(1)
    _method_cache[kind] = out
    return out


def _macro_body(src, name):
    m = re.search(r"macro_rules!\s*%s\s*\{" % re.escape(name), src)
    if not m:
        raise Anchor("macro_rules! %s not found" % name)
    return src[m.end() - 1:_balanced(src, m.end() - 1)]


def _invocation(src, name):
    """text of the `{ … }` table argument of the (single) invocation `name!(a, b, { … })`"""
    ms = [m for m in re.finditer(r"\b%s!\s*\(" % re.escape(name), src)]
    if len(ms) != 1:
        raise Anchor("expected exactly one invocation of %s!, found %d" % (name, len(ms)))
    end = _balanced(src, ms[0].end() - 1, "(", ")")
    inv = src[ms[0].end():end - 1]
    b = inv.find("{")
    if b < 0:
        raise Anchor("%s! invocation has no table" % name)
    return inv[b:_balanced(inv, b)]


def _pairs(table):
    ps = re.findall(r"(\w+)\s*=>\s*([\w:]+)\s*,?", table)
    return ps


def request_table():
    src = _strip_comments(_read("handlers/request_handler.rs"))
    body = _macro_body(src, "dispatch_request")
    table = _invocation(src, "dispatch_request")
    pairs = _pairs(table[1:-1])
    if not pairs:
        raise Anchor("dispatch_request! table is empty")
    consts = _method_consts("Request")
    rows = []
    for ty, handler in pairs:
        if ty not in consts:
            raise Anchor("METHOD of request type %s not found" % ty)
        rows.append((consts[ty], ty, handler))
    # the per-method arm of the macro
    a = body.find("<$req_type>::METHOD =>")
    if a < 0:
        raise Anchor("dispatch_request!: per-method arm `<$req_type>::METHOD =>` not found")
    arm_start = body.find("{", a)
    arm = body[arm_start:_balanced(body, arm_start)]
    if "extract" not in arm or ".task(" not in arm:
        raise Anchor("dispatch_request!: the arm no longer extracts params and calls $context.task")
    # is there a branch that answers when extract fails?
    err_branch = False
    for m in re.finditer(r"Err\s*\([^)]*\)\s*=>|\belse\b", arm):
        rest = arm[m.end():]
        b = rest.find("{")
        if b >= 0:
            blk = rest[b:_balanced(rest, b)]
            if "new_err" in blk and ("send" in blk) and "InvalidParams" in blk:
                err_branch = True
    # unknown method arm
    if "MethodNotFound" not in body:
        raise Anchor("dispatch_request!: MethodNotFound fallback arm not found")
    return rows, err_branch


def task_wrapper():
    """does ServerContext::task answer when the handler future panics?"""
    src = _strip_comments(_read("context/mod.rs"))
    m = re.search(r"pub\s+async\s+fn\s+task\s*<", src)
    if not m:
        raise Anchor("ServerContext::task not found")
    b = src.find("{", src.find("where", m.end()))
    body = src[b:_balanced(src, b)]
    if "tokio::spawn" not in body or "RequestCanceled" not in body or "InternalError" not in body:
        raise Anchor("ServerContext::task: spawn / RequestCanceled / InternalError branches not found")
    if re.search(r"tokio::spawn\s*\(\s*exec\s*\(", body) and re.search(r"Err\s*\(", body):
        return True          # handler future runs in its own task; its JoinError (panic) is mapped to a response
    if "catch_unwind" in body:
        return True
    if re.search(r"exec\s*\(\s*cancel_token\.clone\(\)\s*\)\s*\.await", body):
        return False
    raise Anchor("ServerContext::task: cannot tell how the handler future is awaited")


def initialize_unwrap():
    src = _strip_comments(_read("server/mod.rs"))
    m = re.search(r"pub\s+async\s+fn\s+run_ls\s*\(", src)
    if not m:
        raise Anchor("run_ls not found")
    b = src.find("{", src.find(")", m.end()))
    body = src[b:_balanced(src, b)]
    texts = [body]
    # helper functions called from run_ls that live in the same file
    for h in re.finditer(r"\bfn\s+(\w+)\s*\(", src):
        if h.group(1) != "run_ls" and re.search(r"\b%s\s*\(" % h.group(1), body):
            hb = src.find("{", h.end())
            texts.append(src[hb:_balanced(src, hb)])
    joined = "\n".join(texts)
    if "initialize_start" not in joined or "from_value" not in joined:
        raise Anchor("run_ls: initialize_start / from_value not found")
    if re.search(r"from_value\s*(::<[^>]*>)?\s*\(\s*params\s*\)\s*\.unwrap\(\)", joined):
        return True
    if re.search(r"Err\s*\(", joined) and "new_err" in joined and "InvalidParams" in joined:
        return False
    raise Anchor("run_ls: cannot tell what happens when InitializeParams do not deserialise")


def init_queue():
    src = _strip_comments(_read("server/message_processor.rs"))
    m = re.search(r"fn\s+can_process_during_init\s*\(", src)
    if not m:
        raise Anchor("can_process_during_init not found")
    b = src.find("{", m.end())
    body = src[b:_balanced(src, b)]
    mr = re.search(r"Message::Response\(\s*_\s*\)\s*=>\s*(true|false)", body)
    mq = re.search(r"Message::Request\(\s*_\s*\)\s*=>\s*(true|false)", body)
    mn = re.search(r"matches!\(\s*\w+\.method\.as_str\(\)\s*,([^)]*)\)", body)
    if not (mr and mq and mn):
        raise Anchor("can_process_during_init: shape changed")
    notifs = re.findall(r'"([^"]*)"', mn.group(1))
    return notifs, mq.group(1) == "true", mr.group(1) == "true"


def notification_table():
    src = _strip_comments(_read("handlers/notification_handler.rs"))
    body = _macro_body(src, "dispatch_notification")
    table = _invocation(src, "dispatch_notification")
    ms = re.search(r"\bsync\s*:\s*\{", table)
    ma = re.search(r"\basync\s*:\s*\{", table)
    if not (ms and ma):
        raise Anchor("dispatch_notification!: sync:/async: lists not found")
    sync_t = table[ms.end() - 1:_balanced(table, ms.end() - 1)]
    async_t = table[ma.end() - 1:_balanced(table, ma.end() - 1)]
    consts = _method_consts("Notification")

    def rows(t):
        out = []
        for ty, handler in _pairs(t[1:-1]):
            if ty not in consts:
                raise Anchor("METHOD of notification type %s not found" % ty)
            out.append((consts[ty], ty, handler))
        return out
    # the macro must await sync handlers inline and tokio::spawn async ones
    a = body.find("<$sync_notif>::METHOD =>")
    b = body.find("<$async_notif>::METHOD =>")
    if a < 0 or b < 0:
        raise Anchor("dispatch_notification!: sync/async arms not found")
    sa = body.find("{", a)
    sync_arm = body[sa:_balanced(body, sa)]
    ba = body.find("{", b)
    async_arm = body[ba:_balanced(body, ba)]
    if not re.search(r"\$sync_handler\s*\([^)]*\)\s*\.await", sync_arm) or "spawn" in sync_arm:
        raise Anchor("dispatch_notification!: sync arm no longer awaits the handler inline")
    if not re.search(r"tokio::spawn\s*\(", async_arm):
        raise Anchor("dispatch_notification!: async arm no longer spawns the handler")
    if "Cancel::METHOD" not in body or "handle_cancel" not in body:
        raise Anchor("dispatch_notification!: inline $/cancelRequest arm not found")
    return rows(sync_t), rows(async_t)


def _coq_str(s):
    return '"%s"' % s.replace('"', '""')


def _coq_strs(xs):
    return "[" + "; ".join(_coq_str(x) for x in xs) + "]"


HEADER = "(** GENERATED by checks/ls_dispatch_common.py from /repo — do not edit; regenerated on every run. *)\n" \
         "From Coq Require Import List String.\nImport ListNotations.\nLocal Open Scope string_scope.\n\n"


def write_if_changed(path, text):
    old = open(path, encoding="utf8").read() if os.path.exists(path) else None
    if old != text:
        os.makedirs(os.path.dirname(path), exist_ok=True)
        with open(path, "w", encoding="utf8") as fh:
            fh.write(text)
        return True
    return False


def gen_c24():
    rows, err_branch = request_table()
    catches = task_wrapper()
    unwrap = initialize_unwrap()
    notifs, init_reqs, init_resps = init_queue()
    t = HEADER
    t += "(* crates/emmylua_ls/src/handlers/request_handler.rs : dispatch_request!{…} — (METHOD, request type, handler) *)\n"
    t += "Definition request_table : list (string * (string * string)) := [\n  " + ";\n  ".join(
        "(%s, (%s, %s))" % (_coq_str(m), _coq_str(ty), _coq_str(h)) for m, ty, h in rows) + "].\n"
    t += "Definition request_methods : list string := map fst request_table.\n\n"
    t += "(* dispatch_request!: a branch answers InvalidParams when `extract` fails *)\n"
    t += "Definition extract_error_branch : bool := %s.\n\n" % ("true" if err_branch else "false")
    t += "(* crates/emmylua_ls/src/context/mod.rs : ServerContext::task answers when the handler future panics *)\n"
    t += "Definition task_catches_panic : bool := %s.\n\n" % ("true" if catches else "false")
    t += "(* crates/emmylua_ls/src/server/mod.rs : run_ls unwraps the InitializeParams deserialisation *)\n"
    t += "Definition init_params_unwrap : bool := %s.\n\n" % ("true" if unwrap else "false")
    t += "(* crates/emmylua_ls/src/server/message_processor.rs : can_process_during_init *)\n"
    t += "Definition init_allowed_notifications : list string := %s.\n" % _coq_strs(notifs)
    t += "Definition init_allows_requests : bool := %s.\n" % ("true" if init_reqs else "false")
    t += "Definition init_allows_responses : bool := %s.\n" % ("true" if init_resps else "false")
    changed = write_if_changed(os.path.join(COQ, "theories", "Gen", "C24_Dispatch.v"), t)
    return {"methods": [m for m, _, _ in rows], "extract_error_branch": err_branch, "task_catches_panic": catches,
            "init_params_unwrap": unwrap, "init_allowed_notifications": notifs, "init_allows_requests": init_reqs,
            "init_allows_responses": init_resps, "changed": changed}


def gen_c27():
    sync_rows, async_rows = notification_table()
    t = HEADER
    t += "(* crates/emmylua_ls/src/handlers/notification_handler.rs : dispatch_notification!{ sync:{…} async:{…} } *)\n"
    t += "(* handlers awaited inline on the main loop, in message order *)\n"
    t += "Definition sync_notifications : list string := %s.\n" % _coq_strs([m for m, _, _ in sync_rows])
    t += "(* handlers run as spawned tasks *)\n"
    t += "Definition async_notifications : list string := %s.\n" % _coq_strs([m for m, _, _ in async_rows])
    changed = write_if_changed(os.path.join(COQ, "theories", "Gen", "C27_Notify.v"), t)
    return {"sync": [m for m, _, _ in sync_rows], "async": [m for m, _, _ in async_rows], "changed": changed}


def gate_files(ck, rels):
    """forbidden-vernacular gate for single files outside the property's own directory (shared Base / Gen files)"""
    import json
    for rel in rels:
        f = os.path.join(COQ, "theories", rel)
        if not os.path.exists(f):
            ck.proof_broken("file missing: coq/theories/%s" % rel)
            continue
        hits = section_aware_forbidden(f)
        if hits:
            ck.proof_broken("forbidden vernacular in %s" % os.path.relpath(f, VERIF), json.dumps(hits[:10]))


def gen_c27_sync():
    """facts about the open-documents version that a workspace reload relies on (read by lib/c29_c30_anchors.py,
    the same reader C29 uses), written to C27's own generated file so that C27 does not depend on when C29 last ran"""
    import c29_c30_anchors as A
    try:
        facts = A.c29_facts(REPO)
    except A.AnchorError as ex:
        raise Anchor(str(ex))
    t = "(** GENERATED by checks/ls_dispatch_common.py (reader lib/c29_c30_anchors.py) from /repo — do not edit; regenerated on every run. *)\n"
    t += "(* crates/emmylua_ls/src/context/workspace_manager.rs : sync_open_file / close_open_file bump open_file_state_version on EVERY call *)\n"
    t += "Definition sync_bumps_always : bool := %s.\n" % ("true" if facts["sync_bumps_always"] else "false")
    t += "Definition close_bumps_always : bool := %s.\n" % ("true" if facts["close_bumps_always"] else "false")
    t += "(* the handlers write the editor text before the analysis; the reload = snapshot, clear, init_analysis, version loop under reload_lock *)\n"
    t += "Definition handler_sections_ok : bool := %s.\n" % ("true" if facts["handler_sections_ok"] else "false")
    t += "Definition reload_sections_ok : bool := %s.\n" % ("true" if facts["reload_sections_ok"] else "false")
    write_if_changed(os.path.join(COQ, "theories", "Gen", "C27_Sync.v"), t)
    return facts
