from config_common import *

META = {
    "category": "proof",
    "text": 'Theorems about the Gallina transcription of the configuration loader (model shared with C31) in which the iteration order of '
            'every flattened hash map is an arbitrary permutation: the loaded configuration is independent of those orders '
            '(merge_deterministic); a flat dotted key and its nested spelling have the same nested form (flat_eq_nested, and in general files '
            'with the same settings load the same); the last file that sets a scalar wins whatever the spellings (later_wins, with '
            'setting_in_nested_form linking a file\'s settings to its nested form); array merging appends exactly the new items once '
            '(arrays_nodup, array_again). Tied to the code by exact correspondence of load_configs_raw on multi-file mixed-spelling cases; '
            'searched on the implementation against an independent settings-level oracle, repeated in fresh processes.',
    "note": 'Trusted: Coq kernel; the hand model (validated by correspondence, not proved equal to the Rust); hashbrown iteration = an '
            'arbitrary permutation; serde_json::Map = BTreeMap (checked in Cargo.lock). Axioms: none.',
    "technique": "Coq proof (commutation of key insertions lifted over permutations; induction over paths for merge) about a hand-written "
                 "Gallina transcription + exact model-vs-implementation correspondence + metamorphic/differential oracle search in fresh processes",
}

THEOREMS = [("merge_deterministic", "theorem"), ("nested_form_order_independent", "theorem"), ("flat_eq_nested", "theorem"),
            ("same_settings_same_config", "theorem"), ("settings_respell", "theorem"), ("settings_app", "theorem"),
            ("settings_parse", "theorem"), ("setting_in_nested_form", "theorem"), ("later_wins", "theorem"),
            ("arrays_nodup", "theorem"), ("array_again", "theorem"),
            ("later_wins_example", "example"), ("arrays_example", "example"), ("flat_eq_nested_example", "example"),
            ("merge_deterministic_example", "example")]
SIGS = {"panic", "array-duplicates", "array-merge-mixed-spelling", "array-merge-wrong", "mixed-spelling-later-file-loses", "later-file-loses",
        "setting-lost", "result-differs-from-settings", "typed-setting-wrong", "spelling-changes-meaning", "nondeterministic",
        "fresh-process-crashed"}


def report(ck):
    def f(v):
        if v["signature"] in SIGS:
            ck.violation(v["signature"], "%s on %s" % (v["what"], json.dumps(v["case"], ensure_ascii=False)[:400]), v["case"])
    return f


def replay(ck, binpath, path):
    data = json.load(open(path))
    for v in data.get("violations", []):
        rc, out, err = ck.run_bin(binpath, ["one", "--case-json", json.dumps(v["case"])])
        for l in jlines(out)[1:]:
            if l.strip():
                report(ck)(json.loads(l))


def main(argv):
    ck = Check("C32", argv)
    bins = ck.build_harness("vh_analysis", ["c31", "c32"])
    if ck.replay and bins:
        replay(ck, bins["c32"], ck.replay)
        ck.finish(trusted_base=TRUSTED)
    check_btreemap(ck)
    ok = ck.coq_make(["theories/C32/Props.vo", "theories/C31/Corr.vo"])
    if ok:
        ck.coq_gates(["Base", "C31", "C32"], THEOREMS, "EV.C32.Props")
    if bins:
        if ok or os.path.exists(os.path.join(COQ, "theories/C31/Corr.vo")):
            correspondence(ck, bins["c31"], ck.scale(500, 5000), mode="merge", corpus=CORPUS32, tag="corr_merge")
        if ck.broken:
            ck.deep = True
        run_search(ck, bins["c32"], ck.scale(3, 6), ck.scale(400, 5000), ["--procs", "2"], report(ck))
    ck.finish(
        trusted_base=TRUSTED,
        rule="a case is 1-3 files, each a set of typed settings over a prefix-free universe of 29 dotted keys (real Emmyrc keys and junk keys; "
             "booleans, numbers, strings, duplicate-free string arrays); each case is rendered three ways (random flat/nested chunking per "
             "setting; alternating all-flat/all-nested per file; the opposite alternation) and loaded; the oracle is the settings-level merge "
             "(later scalar wins, arrays appended without duplicates) at raw and typed level, equality of the three renderings, repeated loads, "
             "and equality with 2 fresh processes per search process (plus hostile objects with keys that are both value and prefix for the "
             "determinism oracle); distinct by the settings lists; every case counts as non-trivial (>=1 dotted key by construction)",
        assumptions=["within one file no setting is given twice through two spellings (then the file itself is ambiguous; determinism is still required and checked)",
                     "correspondence and search are sampled (they validate the model and look for replays; the theorems carry the all-inputs claim)"])
