"""C02 — parsing never crashes or hangs (harness vh_parser/c02, model EV.C02.*, token-level model EV.C03.Model)"""
import json
from vcheck import *
import c02_translate
import c03_translate

META = {
    "category": "proof",
    "text": "PROVED in Coq for all inputs: (i) parse_chunk's progress guard bounds the loop by the number of tokens for EVERY statement "
            "parser that uses the parser API (chunk_terminates; without the guard a client loops forever, guard_needed_refuted); "
            "(ii) with the recursion guard (enter_level refuses at MAX_NESTING_LEVEL = 200, as LUAI_MAXCCALLS of the reference "
            "implementation) EVERY run of the recursive descent over the call graph regenerated from today's source keeps at most "
            "(LIMIT+1)*(K+1) stack frames (stack_frames_bounded; the graph obligation graph_guards_every_cycle — every cycle of "
            "the descent passes through a guarded function — is re-proved on the regenerated graph; unguarded the frames are unbounded, "
            "stack_unbounded_without_guard); (iii) token-array reads are linear in the tokens advanced (pump_cost_linear); "
            "(iv) in the token-level parser model n-fold nesting needs base + k*n levels (depth_eq_nesting). "
            "REFUTED and reported as the open finding: flat chains (1+1+...+1, a.b.c..., doc unions) give green trees of unbounded "
            "height at nesting level 2 (tree_height_unbounded_refuted) and rowan drops / hashes green trees recursively. "
            "TIE: translator anchors (guard wrappers, MAX_NESTING_LEVEL, parse_chunk guard), hook-measured nesting level = the model's "
            "level on generated nested programs, hook limit = generated LIMIT. "
            "EXPLORATION only (not proved): bytes of stack per frame, wall-clock, the rowan builder: searched in child processes on a "
            "2 MiB thread (ladders of 37 kinds up to 10^4..10^5 levels, huge flat inputs, token soup, random bytes, mutated std files, "
            "all language levels, doc parsing on/off); a signal, a panic or a timeout is the replay.",
    "note": "Trusted: Coq kernel; the call-graph translator lib/c02_translate.py (regex based, over-approximating: an ambiguous name "
            "gets every candidate; function pointers/closures are not followed); the hand model of parse_chunk; the token-level "
            "parser model of C03 (tied by correspondence). Frame sizes, rowan and the OS are outside the proof. Axioms: none.",
    "technique": "Coq proof (client-generic induction over API-operation sequences and over call trees; table obligation on a "
                 "regenerated call graph) + hook-measured recursion depth vs model + crash/timeout search in child processes",
}

PRELUDE = "From Coq Require Import List Bool NArith.\nImport ListNotations.\n"

THEOREMS = [("chunk_terminates", "theorem"), ("guard_needed_refuted", "refutation"), ("graph_guards_every_cycle", "table"),
            ("stack_frames_bounded", "theorem"), ("stack_unbounded_without_guard", "refutation"), ("pump_cost_linear", "theorem"),
            ("depth_eq_nesting", "theorem"), ("tree_height_unbounded_refuted", "refutation"), ("graph_example", "example")]

TRUSTED = [
    "Coq 8.16.1 kernel (coqc); vm_compute in Examples, in the table obligation graph_guards_every_cycle (finite graph) and in the correspondence evaluation",
    "axioms: none (Print Assumptions: Closed under the global context for every theorem)",
    "translator lib/c02_translate.py: call graph of crates/emmylua_parser/src/{grammar/lua,grammar/doc,parser} by regular expressions "
    "(over-approximates ambiguous names; does not follow closures); anchors checked on every run",
    "hand models: coq/theories/C02/Model.v (parse_chunk loop, guard semantics over call trees, token pump) and "
    "coq/theories/C03/Model.v (token-level parser, nesting levels), the latter tied by the correspondence check",
    "not covered by proof: stack bytes per frame, wall-clock, rowan (green tree drop / NodeCache), the doc-comment lexer — exploration in child processes",
]

SEARCH_SIGS_KNOWN = {"deep-tree:rowan-recursion"}


def regenerate(ck):
    ok = True
    try:
        g = c02_translate.regenerate(REPO, os.path.join(COQ, "theories/Gen/C02_Graph.v"))
        ck.cov["table_obligations"].append({"name": "graph_guards_every_cycle", "functions": len(g["keys"]), "edges": len(g["edges"]),
                                            "guarded": len(g["guarded"]), "max_rank": max(g["rank"].values()), "limit": g["limit"]})
        if g["cycles"]:
            ck.proof_broken("the descent has a cycle that avoids every guarded function: %s" % g["cycles"][:3])
            ok = False
    except c02_translate.AnchorError as e:
        ck.tie_broken("C02 translator anchor missing: %s" % e, "lib/c02_translate.py could not regenerate Gen/C02_Graph.v")
        g = None
        ok = False
    try:
        c03_translate.regenerate(REPO, os.path.join(COQ, "theories/Gen/C03_Ops.v"))
    except c03_translate.AnchorError as e:
        ck.tie_broken("C03 translator anchor missing (the token-level model of C02 uses its tables): %s" % e, "")
        ok = False
    return g, ok


def tok_list(toks):
    return coq_list(toks)


def correspondence(ck, binpath, n, limit):
    rc, out, err = ck.run_bin(binpath, ["corr", "--seed", ck.seed, "--n", n], timeout=1800)
    if rc != 0:
        ck.tie_broken("harness c02 corr failed", err[-2000:])
        return
    cases = [json.loads(l) for l in jlines(out) if l.strip()]
    lv = {"5.1": "Lua51", "5.2": "Lua52", "5.3": "Lua53", "5.4": "Lua54"}
    terms = []
    for c in cases:
        terms.append("{| c_level := %s; c_toks := %s; c_errs := %s; c_depth := (%d)%%nat |}" % (
            lv[c["level"]], tok_list(c["toks"]), "true" if c["errs"] else "false", c["depth"]))
        if limit is not None and c["limit"] != limit:
            ck.tie_broken("the limit compiled into the parser (%s) differs from the translated LIMIT (%s)" % (c["limit"], limit), "")
            return
    failing = ck.coq_failing("corr", terms, ["EV.C03.Syntax", "EV.C02.Corr"], check_fn="EV.C02.Corr.check_case",
                             case_type="EV.C02.Corr.case", per_shard=60, timeout=1800, prelude=PRELUDE)
    if failing is None:
        return
    for i in failing[:5]:
        c = cases[i]
        ck.tie_broken("model/implementation disagreement on the nesting level: wrappers %s, measured level %d, errors %s" % (
            c["wraps"][:12], c["depth"], c["errs"]), json.dumps(c)[:3000])
    for c in cases:
        ck.count_case(("corr", tuple(c["wraps"]), c["level"]), nontrivial=len(c["wraps"]) > 0)
    ck.cov["distribution"]["corr_cases"] = len(cases)
    ck.cov["distribution"]["corr_max_measured_level"] = max([c["depth"] for c in cases] or [0])
    ck.cov["distribution"]["corr_rejected_by_guard"] = sum(1 for c in cases if c["errs"])
    if cases:
        c = cases[min(len(cases) - 1, 40)]
        ck.sample({"kind": "correspondence case", "wrappers": c["wraps"][:10], "tokens": len(c["toks"]), "measured_level": c["depth"]})


def search(ck, binpath, n):
    args = ["search", "--seed", ck.seed, "--n", n]
    if ck.tier == "thorough" or ck.deep:
        args.append("--deep")
    rc, out, err = ck.run_bin(binpath, args, timeout=7200)
    if rc != 0:
        ck.tie_broken("harness c02 search failed", err[-2000:])
        return
    for l in jlines(out):
        if not l.strip():
            continue
        v = json.loads(l)
        if "summary" in v:
            ck.cov["distribution"]["search"] = v["summary"]
            ck.add_measured(v["summary"]["cases"], v["summary"]["distinct_nontrivial"])
            continue
        ck.violation(v["signature"], v["what"], v["case"])
        if v["signature"] in SEARCH_SIGS_KNOWN:
            ck.sample({"kind": "known finding re-confirmed", "case": v["case"]})


def replay(ck, binpath, path):
    data = json.load(open(path))
    for v in data.get("violations", []):
        rc, out, err = ck.run_bin(binpath, ["one", "--case-json", json.dumps(v["case"])], timeout=900)
        try:
            r = json.loads(jlines(out)[-1])
        except Exception:
            r = {"end": "harness-error"}
        if r.get("end") != "ok":
            ck.violation(v["signature"], "%s [replayed: %s]" % (v["what"], r), v["case"])


def main(argv):
    ck = Check("C02", argv)
    bins = ck.build_harness("vh_parser", ["c02"])
    if ck.replay and bins:
        replay(ck, bins["c02"], ck.replay)
        ck.finish(trusted_base=TRUSTED)
    g, ok_gen = regenerate(ck)
    ok = ck.coq_make(["theories/C02/Props.vo", "theories/C02/Corr.vo"])
    if ok:
        ck.coq_gates(["C02", "C03"], THEOREMS, "EV.C02.Props")
    if bins:
        if ok or os.path.exists(os.path.join(COQ, "theories/C02/Corr.vo")):
            correspondence(ck, bins["c02"], ck.scale(120, 1500), g["limit"] if g else None)
        if ck.broken:
            ck.deep = True
        search(ck, bins["c02"], ck.scale(300, 6000))
    ck.finish(
        trusted_base=TRUSTED,
        rule="search: every case is parsed in a child process on a thread with a 2 MiB stack under a wall-clock budget: nesting ladders "
             "of 37 kinds (28 recursive, 9 flat chains) at fixed rungs, 8 shapes of huge flat input, and seeded batches of token soup, random "
             "bytes (lossy UTF-8), mutated std library files, random ladders and mixed nestings, over 8 language levels with doc parsing on/off; "
             "per parse the hook counters are checked (nesting level <= limit, token reads <= 4 per token). correspondence: nested programs "
             "from 15 wrappers (depth 1..40 and ladders up to 230) with the hook-measured level. non-trivial = non-empty text; distinct by case descriptor",
        assumptions=["a chain ladder that only crashes on the 2 MiB stack but parses on a 512 MiB stack at nesting level <= 8 is classified as the rowan finding",
                     "wall-clock budgets are generous (90 s + 0.2 ms per byte) because the machine may be loaded: they detect hangs, not slowness",
                     "correspondence and search are sampled; the theorems carry the all-inputs claims"])
