"""shared by C16 and C12: the type-check / sub-type / union model (harness vh_analysis/c16, model EV.C16.Model)"""
import json
import sys

from vcheck import *
sys.path.insert(0, os.path.join(VERIF, "lib"))
import c16_consts

MODEL_TRUSTED = [
    "Coq 8.16.1 kernel (coqc), vm_compute used in Examples, in `_refuted` witnesses and in the correspondence evaluation; no native_compute",
    "axioms: none (Print Assumptions: Closed under the global context for every theorem)",
    "hand-written model coq/theories/C16/Model.v of semantic/type_check/*.rs, db_index/type/type_ops/union_type.rs, "
    "LuaType::from_vec / LuaUnionType::from_vec / PartialEq / Hash, is_sub_type_of, get_super_types_iter; tied by the "
    "correspondence check (harness vh_analysis/src/bin/c16.rs + coq/theories/C16/Corr.v), not proved equal to the Rust",
    "translator lib/c16_consts.py (regular expressions over type_check_guard.rs, db_index/type/mod.rs, humanize_type.rs, basic_union.rs, "
    "type_check/mod.rs, sub_type.rs) regenerating coq/theories/Gen/C16_Consts.v on every run",
    "modelling assumptions: strings/names are interned numbers; 64-bit hash collisions do not occur (HashSet membership = equal hash key); "
    "a union node is hashed by the address of its Arc (observed by the harness as a pointer id, 0 for unions built during the operation); "
    "classes of the modelled worlds have no fields, operators or generic parameters; i64 constants are unbounded Z",
]

BASE_NAMES = c16_consts.BASE_NAMES
RES_CODE = {"ok": 0, "nomatch": 1, "recursion": 2, "donot": 3, "panic": 98}
UKIND = {"basic": "UBasic", "nullable": "UNullable", "multi": "UMulti"}
BASICS = ["BUnknown", "BAny", "BNil", "BTable", "BUserdata", "BFunction", "BThread", "BBoolean", "BString", "BInteger",
          "BNumber", "BIo", "BSelfInfer", "BGlobal", "BNever"]


class OutOfGrammar(Exception):
    pass


class Interner:
    def __init__(self):
        self.names = dict(BASE_NAMES)
        self.strs = {}
        self.params = {"...": 0, "self": 1}

    def name(self, n):
        if n not in self.names:
            self.names[n] = 100 + len(self.names)
        return self.names[n]

    def string(self, s):
        if s not in self.strs:
            self.strs[s] = len(self.strs)
        return self.strs[s]

    def param(self, s):
        if s not in self.params:
            self.params[s] = len(self.params)
        return self.params[s]


def coq_bool(b):
    return "true" if b else "false"


def ty_to_coq(j, it, top_result=False):
    """JSON dump of a LuaType (harness tyjson) -> Coq term of EV.C16.Model.ty"""
    if "b" in j:
        return "(TBasic %s)" % BASICS[j["b"]]
    if "bc" in j:
        return "(TBoolConst false %s)" % coq_bool(j["bc"])
    if "dbc" in j:
        return "(TBoolConst true %s)" % coq_bool(j["dbc"])
    if "sc" in j:
        return "(TStrConst false %d)" % it.string(j["sc"])
    if "dsc" in j:
        return "(TStrConst true %d)" % it.string(j["dsc"])
    if "ic" in j:
        return "(TIntConst false (%d)%%Z)" % j["ic"]
    if "dic" in j:
        return "(TIntConst true (%d)%%Z)" % j["dic"]
    if "ref" in j:
        return "(TRef %d)" % it.name(j["ref"])
    if "arr" in j:
        if j.get("len") is not None:
            raise OutOfGrammar("array with length")
        return "(TArray %s)" % ty_to_coq(j["arr"], it)
    if "tup" in j:
        if j.get("infer"):
            raise OutOfGrammar("inferred tuple")
        return "(TTuple %s)" % coq_list([ty_to_coq(x, it) for x in j["tup"]])
    if "fn" in j:
        f = j["fn"]
        if f.get("generic") or f.get("async") not in (None, "None"):
            raise OutOfGrammar("generic/async function")
        ps = []
        for n, t in f["params"]:
            ps.append("(%d, %s)" % (it.param(n), "None" if t is None else "Some %s" % ty_to_coq(t, it)))
        try:
            ret = ty_to_coq(f["ret"], it)
        except OutOfGrammar:
            raise
        return "(TFunc %s %s %s)" % (coq_bool(f["colon"]), coq_list(ps), ret)
    if "u" in j:
        ms = [ty_to_coq(x, it) for x in j["m"]]
        if j["u"] == "nullable":
            ms = ms + ["(TBasic BNil)"]
        return "(TUnion %d %s %s)" % (0 if top_result else j.get("p", 0), UKIND[j["u"]], coq_list(ms))
    raise OutOfGrammar(json.dumps(j)[:80])


def world_to_coq(obs, it):
    """returns (world term, eff-supers list) or raises OutOfGrammar"""
    ds = []
    eff = []
    for d in obs["decls"]:
        if d["kind"] == "missing":
            continue
        if d["kind"] not in ("class", "alias") or d.get("generic"):
            raise OutOfGrammar("declaration kind %s" % d["kind"])
        sups = [ty_to_coq(x, it) for x in d["supers"]]
        origin = "None" if d.get("origin") is None else "Some %s" % ty_to_coq(d["origin"], it)
        kind = "DAlias" if d["kind"] == "alias" else "DClass"
        ds.append("(%d, {| d_kind := %s; d_supers := %s; d_origin := %s |})" % (it.name(d["name"]), kind, coq_list(sups), origin))
        if d["kind"] == "class":
            eff.append("(%d, %s)" % (it.name(d["name"]), coq_list([ty_to_coq(x, it) for x in d["eff_supers"]])))
    return coq_list(ds), eff


def obs_to_case(obs):
    """one harness observation record -> (Coq term of EV.C16.Corr.case, stats dict) ; None when the world is outside the grammar"""
    it = Interner()
    try:
        world, eff = world_to_coq(obs, it)
    except OutOfGrammar:
        return None
    tys = []
    ok = []
    for j in obs["types"]:
        try:
            tys.append(ty_to_coq(j, it))
            ok.append(True)
        except OutOfGrammar:
            tys.append("(TBasic BNil)")
            ok.append(False)
    checks = []
    for i, j, r in obs["checks"]:
        if ok[i] and ok[j]:
            checks.append("((%d, %d), %d)" % (i, j, RES_CODE.get(r, 97)))
    unions = []
    for u in obs["unions"]:
        if all(ok[i] for i in u["idx"]):
            try:
                unions.append("(%s, (%s, %s))" % (coq_list([str(i) for i in u["idx"]]), ty_to_coq(u["all"], it, True), ty_to_coq(u["fold"], it, True)))
            except OutOfGrammar:
                pass
    subs = ["((%d, %d), %s)" % (it.name(a), it.name(b), coq_bool(r)) for a, b, r in obs["subs"]]
    cfg = "{| strict_array_index := %s; doc_base_const_match_base_type := %s |}" % (
        coq_bool(obs["cfg"]["array_index"]), coq_bool(obs["cfg"]["doc_base_const_match_base_type"]))
    term = ("{| c_world := %s; c_cfg := %s; c_types := %s; c_checks := %s; c_unions := %s; c_subs := %s; c_eff := %s |}"
            % (world, cfg, coq_list(tys), coq_list(checks), coq_list(unions), coq_list(subs), coq_list(eff)))
    return term, {"types": sum(ok), "dropped_types": len(ok) - sum(ok), "checks": len(checks), "unions": len(unions), "subs": len(subs), "eff": len(eff)}


def regenerate_consts(ck):
    """translator step; returns True when the generated file is in place"""
    try:
        path, t = c16_consts.regenerate(REPO, COQ)
    except c16_consts.Anchor as ex:
        ck.tie_broken("translator c16_consts: anchor missing in today's source", str(ex))
        return False
    ck.cov["table_obligations"].append({"file": "coq/theories/Gen/C16_Consts.v", "constants": {k: t[k] for k in ("max_level", "real_depth", "hum_depth")},
                                        "digest": t["digest"]})
    return True


def explain_disagreement(ck, term, obs):
    """re-evaluate one disagreeing case and say which observations differ"""
    body = "Local Open Scope N_scope.\nDefinition c__ : case := %s.\nEval vm_compute in (diagnose_case c__).\n" % term
    rc, out = ck.coq_eval("corr_explain", body, ["EV.C16.Model", "EV.C16.Corr"], timeout=600)
    m = re.search(r"=\s*\[(.*?)\]\s*:\s*list", out, re.S)
    if rc != 0 or not m:
        return "could not localise: " + out[-500:]
    items = re.findall(r"\((\d+),\s*(\d+)\)", m.group(1))
    msgs = []
    checks = [c for c in obs["checks"]]
    for kind, i in items[:6]:
        kind, i = int(kind), int(i)
        if kind == 1:
            msgs.append("check #%d (in-grammar order)" % i)
        elif kind == 2:
            msgs.append("union #%d" % i)
        elif kind == 3 and i < len(obs["subs"]):
            msgs.append("is_sub_type_of%r" % (tuple(obs["subs"][i]),))
        elif kind == 4:
            msgs.append("effective supers #%d" % i)
    return "; ".join(msgs)


def correspondence(ck, binpath, n, label="corr"):
    rc, out, err = ck.run_bin(binpath, ["corr", "--seed", ck.seed, "--n", n], timeout=1200)
    if rc != 0:
        ck.tie_broken("harness c16 corr failed", err[-2000:])
        return
    obs = [json.loads(l) for l in out.split("\n") if l.strip()]
    terms, kept, stats = [], [], {"worlds": 0, "outside_grammar": 0, "types": 0, "dropped_types": 0, "checks": 0, "unions": 0, "subs": 0, "eff": 0}
    fams = {}
    for o in obs:
        r = obs_to_case(o)
        if r is None:
            stats["outside_grammar"] += 1
            continue
        terms.append(r[0])
        kept.append(o)
        stats["worlds"] += 1
        for k, v in r[1].items():
            stats[k] += v
        fams[str(o.get("family"))] = fams.get(str(o.get("family")), 0) + 1
    failing = ck.coq_failing(label, terms, ["EV.C16.Model", "EV.C16.Corr"], per_shard=12, timeout=1500)
    if failing:
        for i in failing[:5]:
            o = kept[i]
            where = explain_disagreement(ck, terms[i], o)
            ck.tie_broken("model/implementation disagreement on the type-check / union model (family %s): %s" % (o.get("family"), where),
                          json.dumps({"defs": o["defs"], "specs": o["specs"], "cfg": o["cfg"], "where": where})[:4000])
    for o in kept:
        for i, j, r in o["checks"]:
            ck.count_case(("corr", o["defs"], o["specs"][i], o["specs"][j], json.dumps(o["cfg"])), nontrivial=(i != j or len(o["specs"][i]) > 9))
    stats["families"] = fams
    # coq_failing counted one trace per world; count the individual observations that were compared as well
    ck.cov["traces_validated_against_impl"] += stats["checks"] + stats["unions"] + stats["subs"] + stats["eff"]
    ck.cov["distribution"]["correspondence"] = stats
    if kept:
        o = kept[min(len(kept) - 1, 3)]
        ck.sample({"kind": "correspondence world", "defs": o["defs"][:300], "types": o["specs"][:6], "checks": o["checks"][:8], "cfg": o["cfg"]})
