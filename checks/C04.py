"""C04 — parse results do not depend on earlier parses (shared rowan NodeCache of a Vfs).

Machinery: coq/theories/C04/{Model,Proofs,Props,Corr}.v on top of C01's builder model, Gen/C01_Kinds.v,
harness/vh_analysis/src/bin/c04.rs (uses hook emmylua_parser::verif for the event lists)."""
import json
import c01_common as cc
from vcheck import *

META = {
    "category": "proof",
    "text": ("Coq theorems about a Gallina model of rowan 0.16.1's NodeCache as driven by LuaGreenNodeBuilder::with_cache -> "
             "build_rowan_green -> GreenNodeBuilder (token interned by (kind,text); node interned only when <= 3 children and every "
             "child has a non-zero hash, compared by kind and child POINTER identity), with the hash functions and the outcome of "
             "hashbrown's probe as ARBITRARY section parameters: cache_inv_preserved (heap well-founded and append-only, entries "
             "allocated, children of interned nodes interned — for the empty cache and across every build), cached_build_denotes (for "
             "EVERY cache state satisfying the invariant, i.e. after any history, the element built for a tree has exactly the tree's "
             "kinds and token texts), history_independent, panic_independent, errors_independent (the error list is fixed before the "
             "only cache-touching stage runs), cached_parse_denotes (composition with C01's builder model). PROVED: these statements "
             "about the model. CHECKED ON TRACES ONLY: that rowan and the Vfs behave like the model — histories of texts "
             "(near-duplicates, edits and reverts, re-opens under other uris, concatenations, closes, configuration switches) through "
             "one Vfs: after every step the stored tree dump and error list of every open file equal a fresh standalone parse; the "
             "model is run on recorded short histories under two parameter sets (always-hit / adversarial collisions) and must "
             "reproduce the content of the tree the Vfs returned."),
    "note": ("Trusted: Coq kernel; rowan 0.16.1 and hashbrown are MODELLED, not verified (memory safety, Arc lifetimes, pointer "
             "identity of live objects, raw-entry probing returning only entries accepted by the closure); the hand model of the "
             "builder (C01). Axioms: none."),
    "technique": "Coq proof (invariant over arbitrary cache states, arbitrary hash functions and probe outcomes as Section variables) "
                 "+ exact model-vs-implementation correspondence on recorded histories + differential oracle search (shared cache vs fresh parse)",
}

THEOREMS = [("cache_inv_preserved", "theorem"), ("cached_build_denotes", "theorem"), ("history_independent", "theorem"),
            ("panic_independent", "theorem"), ("errors_independent", "theorem"), ("cached_parse_denotes", "theorem"),
            ("cache_example", "example")]

TRUSTED = [
    "Coq 8.16.1 kernel (coqc); vm_compute used in the Example and in the correspondence evaluation",
    "axioms: none (Print Assumptions: Closed under the global context for every theorem)",
    "rowan 0.16.1 (green/node_cache.rs, green/builder.rs) and hashbrown raw-entry probing: modelled by coq/theories/C04/Model.v, "
    "not verified; validated by the correspondence check and the differential search",
    "hand-written builder model coq/theories/C01/Model.v (tied by check C01) and lib/c01_tables.py",
    "search oracle: dump (kinds, ranges, token texts) and error list (kind, message, range) of Vfs::get_syntax_tree / "
    "get_file_parse_error versus LuaParser::parse with the same Emmyrc-derived configuration and a fresh NodeCache",
]


def hist_to_coq(h):
    steps = []
    for s in h["steps"]:
        steps.append("{| h_text := %s; h_events := %s; h_dump := %s |}" % (
            coq_list([str(x) for x in s["t"]]), coq_list([cc.ev_to_coq(e) for e in s["events"]]), s["dump"]))
    return coq_list(steps)


def correspondence(ck, binpath, n):
    rc, out, err = ck.run_bin(binpath, ["corr", "--seed", ck.seed, "--n", n])
    if rc != 0:
        ck.tie_broken("harness c04 corr failed", err[-2000:])
        return
    hs = [json.loads(l) for l in jlines(out) if l.strip()]
    terms = [hist_to_coq(h) for h in hs]
    failing = ck.coq_failing("corr_hist", terms, ["EV.C01.Model", "EV.C04.Model", "EV.C04.Corr"], check_fn="check_history",
                             case_type="list hstep", per_shard=25)
    for i in (failing or []):
        ck.tie_broken("model/implementation disagreement: content of a tree built through the shared cache, history of %d texts" % len(hs[i]["steps"]),
                      json.dumps(hs[i])[:3000])
    nsteps = 0
    for h in hs:
        nsteps += len(h["steps"])
        ck.count_case(("hist", json.dumps([s["t"] for s in h["steps"]])), nontrivial=len(h["steps"]) > 1)
    ck.cov["distribution"]["corr_histories"] = len(hs)
    ck.cov["distribution"]["corr_history_steps"] = nsteps
    if hs:
        h = hs[min(len(hs) - 1, 3)]
        ck.sample({"kind": "correspondence history", "texts": ["".join(chr(x) for x in s["t"]) for s in h["steps"]]})


def search(ck, binpath, n):
    rc, out, err = ck.run_bin(binpath, ["search", "--seed", ck.seed, "--n", n], timeout=3000)
    if rc != 0:
        ck.tie_broken("harness c04 search failed", err[-2000:])
        return
    for l in jlines(out):
        if not l.strip():
            continue
        v = json.loads(l)
        if "summary" in v:
            ck.cov["distribution"]["search"] = v["summary"]
            ck.add_measured(v["summary"]["parses_through_cache"], v["summary"]["distinct_nontrivial"])
            continue
        ck.violation(v["signature"], v["what"], {"history": v["history"]})
        ck.sample({"kind": "violation", "history": v["history"], "what": v["what"][:300]})


def replay(ck, binpath, path):
    data = json.load(open(path))
    for v in data.get("violations", []):
        h = v.get("case", {}).get("history")
        if h is None:
            continue
        rc, out, err = ck.run_bin(binpath, ["one", "--history-json", json.dumps(h)])
        for l in jlines(out):
            if l.strip():
                vv = json.loads(l)
                ck.violation(vv["signature"], vv["what"], {"history": vv["history"]})


def main(argv):
    ck = Check("C04", argv)
    cc.regenerate_tables(ck)
    bins = ck.build_harness("vh_analysis", ["c04"])
    if ck.replay and bins:
        replay(ck, bins["c04"], ck.replay)
        ck.finish(trusted_base=TRUSTED)
    ok = ck.coq_make(["theories/C04/Props.vo", "theories/C04/Corr.vo"])
    if ok:
        ck.coq_gates(["Base", "C01", "C04", "Gen"], THEOREMS, "EV.C04.Props")
    if bins:
        if ok or os.path.exists(os.path.join(COQ, "theories/C04/Corr.vo")):
            correspondence(ck, bins["c04"], ck.scale(300, 4000))
        if ck.broken:
            ck.deep = True
        search(ck, bins["c04"], ck.scale(2000, 60000))
    ck.finish(
        trusted_base=TRUSTED,
        rule=("a case is a history of 2..14 steps through ONE Vfs over 4 uris (local and remote): a step sets a file to a text drawn "
              "from a growing pool (re-open/duplicate 25%, one-token edit of a pooled text 33%, concatenation of two pooled texts 17%, "
              "fresh statement soup 8%), closes a file (8%) or switches the configuration (8%; 27 configurations = 9 Lua versions x 3 "
              "non-standard symbol sets); 6 hand-written histories and corpus/C04 first; after EVERY step every open file is compared "
              "with a fresh parse; non-trivial = at least one green node of a later tree is pointer-shared with an earlier tree (the "
              "cache was actually hit); distinct by hash of the step list"),
        assumptions=["rowan/hashbrown behave as modelled (checked on histories, not proved)",
                     "a parse that panics is property C02's business and is skipped here",
                     "correspondence and search are sampled; the theorems carry the all-histories claim"])
