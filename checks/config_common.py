"""shared by C31 and C32: configuration loading (harness vh_analysis/c31 + c32, model EV.C31.Model)"""
import json
from concurrent.futures import ThreadPoolExecutor
from vcheck import *

CORPUS31 = os.path.join(VERIF, "corpus", "C31")
CORPUS32 = os.path.join(VERIF, "corpus", "C32")

TRUSTED = [
    "Coq 8.16.1 kernel (coqc), vm_compute used in Examples and in the correspondence evaluation; no native_compute",
    "axioms: none (Print Assumptions: Closed under the global context for every theorem)",
    "hand-written model coq/theories/C31/Model.v of crates/emmylua_code_analysis/src/config/{flatten_config/mod.rs,config_loader.rs,"
    "pre_process.rs,mod.rs}; tied by the correspondence check (harness vh_analysis/src/bin/c31.rs + coq/theories/C31/Corr.v)",
    "modelling assumptions: a String is the list of its chars and String order is code-point lexicographic (true of UTF-8); "
    "serde_json::Map is a BTreeMap (no preserve_order feature: checked in Cargo.lock by the check); hashbrown iteration order = an "
    "arbitrary permutation of the map's content; numbers are integers; reading/parsing a file and running a .lua config are abstracted "
    "to {unreadable, invalid, parsed value}; the typed deserialiser (serde derive of Emmyrc) is an arbitrary partial function; "
    "the regex class \\w is an arbitrary predicate in the theorems (ASCII + é + 中 in the correspondence); Unix path rules; "
    "stack depth and memory are not modelled (serde_json limits file nesting to 128)",
    "search oracle: computed inside the harness from the settings each generated file is meant to carry (independent of the Coq model)",
]


def jtxt(s):
    return coq_text(s)


def coq_json(v):
    if v is None:
        return "JNull"
    if v is True:
        return "(JBool true)"
    if v is False:
        return "(JBool false)"
    if isinstance(v, int):
        return "(JNum (%d))" % v
    if isinstance(v, float):
        raise ValueError("float in a correspondence case")
    if isinstance(v, str):
        return "(JStr %s)" % jtxt(v)
    if isinstance(v, list):
        return "(JArr %s)" % coq_list([coq_json(x) for x in v])
    if isinstance(v, dict):
        # serde_json::Map = BTreeMap<String, Value>: keys sorted bytewise = by code point
        return "(JObj %s)" % coq_list(["(%s, %s)" % (jtxt(k), coq_json(v[k])) for k in sorted(v.keys())])
    raise ValueError("unexpected json %r" % (v,))


def is_bad_file(f):
    return f.get("k") in ("missing", "binary") or (f.get("k") == "text")


def coq_item(x):
    if isinstance(x, str):
        return "(IPath %s)" % jtxt(x)
    return "(IConfig %s %s %s)" % (jtxt(x["path"]), coq_list([jtxt(d) for d in x.get("ignoreDir", [])]),
                                   coq_list([jtxt(g) for g in x.get("ignoreGlobs", [])]))


def coq_paths_cfg(c, roots="roots", library="library", packages="packages", ignore="ignore", res="res"):
    return ("{| workspace_roots := %s; library := %s; packages := %s; ignore_dir := %s; resource_paths := %s |}" % (
        coq_list([jtxt(s) for s in c.get(roots, [])]), coq_list([coq_item(x) for x in c.get(library, [])]),
        coq_list([coq_item(x) for x in c.get(packages, [])]), coq_list([jtxt(s) for s in c.get(ignore, [])]),
        coq_list([jtxt(s) for s in c.get(res, [])])))


# must agree with ENV in harness/vh_analysis/src/c31_common.rs (the harness sets exactly these)
ENV_SET = [("VH_A", "/env/a"), ("VH_B", "~"), ("VH_T", "{workspaceFolder}/t"), ("VH_D", "$VH_A"), ("VH_E", "")]
WORD_EXTRA = [233, 20013]  # é 中 are \w; 😀 is not


def case_to_coq(c):
    if c.get("kind") == "paths":
        out = c["out"]
        if "P" in out:
            o = "Panic"
        else:
            o = "(Val %s)" % coq_paths_cfg(out)
        pin = ("{| pi_vars := %s; pi_home := Some %s; pi_luarocks := %s; pi_word := %s; pi_ws := %s; pi_cfg := %s |}" % (
            coq_list(["(%s, %s)" % (jtxt(k), jtxt(v)) for k, v in ENV_SET]), jtxt(c["home"]), jtxt(c.get("luarocks", "")),
            coq_list([str(x) for x in WORD_EXTRA]), jtxt(c["ws"]), coq_paths_cfg(c)))
        return "(CPaths %s %s)" % (pin, o)
    files = []
    for f in c.get("files", []):
        if f.get("k", "json") == "json":
            files.append("(FJson %s)" % coq_json(f["v"]))
        else:
            files.append("FBad")
    partials = [coq_json(p) for p in c.get("partials", [])]
    raw = c["raw"]
    o = "Panic" if "P" in raw else "(Val %s)" % coq_json(raw["V"])
    return "(CLoad %s %s %s)" % (coq_list(files), coq_list(partials), o)


def check_btreemap(ck):
    """the model's objects are key-sorted maps: serde_json must not be built with preserve_order"""
    lock = os.path.join(REPO, "Cargo.lock")
    try:
        txt = open(lock).read()
    except OSError as ex:
        ck.tie_broken("cannot read /repo/Cargo.lock", str(ex))
        return
    m = re.search(r'name = "serde_json"\nversion = "[^"]*"\n(?:source = "[^"]*"\n)?(?:checksum = "[^"]*"\n)?dependencies = \[(.*?)\]', txt, re.S)
    if not m:
        ck.tie_broken("serde_json entry not found in /repo/Cargo.lock (anchor of the BTreeMap assumption)", "")
    elif "indexmap" in m.group(1):
        ck.tie_broken("serde_json depends on indexmap (preserve_order): objects are no longer key-sorted maps; the model's object order is wrong", m.group(1))


def correspondence(ck, binpath, n, mode=None, corpus=CORPUS31, tag="corr"):
    args = ["corr", "--seed", ck.seed, "--n", n, "--corpus", corpus]
    if mode:
        args += ["--mode", mode]
    rc, out, err = ck.run_bin(binpath, args)
    if rc != 0:
        ck.tie_broken("harness c31 corr failed", (out + err)[-2000:])
        return
    cases = [json.loads(l) for l in jlines(out) if l.strip()]
    terms = []
    kept = []
    for c in cases:
        try:
            terms.append(case_to_coq(c))
            kept.append(c)
        except ValueError as ex:
            ck.notes.append("correspondence case skipped: %s" % ex)
    failing = ck.coq_failing(tag, terms, ["EV.C31.Model", "EV.C31.Corr"], per_shard=60)
    for i in (failing or []):
        c = kept[i]
        ck.tie_broken("model/implementation disagreement on configuration loading: %s" % json.dumps(c, ensure_ascii=False)[:300],
                      json.dumps(c, ensure_ascii=False)[:4000])
    npaths = nload = npanic = nmulti = 0
    for c in kept:
        if c.get("kind") == "paths":
            npaths += 1
            s = json.dumps(c)
            ck.count_case(("corr-paths", s), nontrivial=("~" in s or "$" in s or "{" in s))
            if "P" in c["out"]:
                npanic += 1
        else:
            nload += 1
            files = c.get("files", [])
            nmulti += len(files) >= 2
            s = json.dumps(c["files"]) + json.dumps(c.get("partials", []))
            ck.count_case(("corr-load", s), nontrivial=(len(files) >= 2 or "." in s))
            if "P" in c["raw"]:
                npanic += 1
    d = ck.cov["distribution"].setdefault(tag, {})
    d.update({"cases": len(kept), "load_cases": nload, "path_cases": npaths, "multi_file": nmulti, "implementation_panics": npanic})
    for c in kept[7:9] + kept[-1:]:
        ck.sample({"kind": "correspondence case", "case": json.loads(json.dumps(c, ensure_ascii=False)[:1500]) if len(json.dumps(c)) < 1500 else str(c)[:600]})


def run_search(ck, binpath, nproc, n, extra, on_violation):
    """the search binary is run in `nproc` fresh processes (fresh hash seeds), seeds ck.seed*1000 + i"""
    def one(i):
        return ck.run_bin(binpath, ["search", "--seed", ck.seed * 1000 + i, "--n", n] + extra)
    with ThreadPoolExecutor(max_workers=min(nproc, NCPU)) as ex:
        results = list(ex.map(one, range(nproc)))
    total = {}
    for i, (rc, out, err) in enumerate(results):
        if rc != 0:
            ck.tie_broken("harness %s search failed (process %d)" % (os.path.basename(binpath), i), (out + err)[-2000:])
            continue
        for l in jlines(out):
            if not l.strip():
                continue
            v = json.loads(l)
            if "summary" in v:
                s = v["summary"]
                # the hand-written / corpus cases run in every process (fresh hash seeds) but are distinct only once
                ck.add_measured(s["cases"], s["distinct_nontrivial"] - (s.get("fixed_nontrivial", 0) if i > 0 else 0))
                for k, x in s.items():
                    if isinstance(x, int):
                        total[k] = total.get(k, 0) + x
                continue
            on_violation(v)
    total["processes"] = nproc
    ck.cov["distribution"]["search"] = total
