"""C39 — In-place formatting never leaves a truncated file.

  proof : coq/theories/C39 (file-system semantics, crash after any prefix, all fault sequences)
  tie   : (a) translator: which write call `luafmt --write` uses -> coq/theories/Gen/C39_Writes.v, re-proved;
          (b) strace of the REAL `luafmt --write` (undisturbed and under every injected fault) -> per target file a
              trace in the model's [op] type -> evaluated inside Coq: the model predicts the content read back,
              [protocol_safe] holds (every crash point of the observed run), and the calls are exactly those of the
              modelled program of the source's protocol under the observed results
  search: fault injection on the real binary (kill at every open/write/fsync/close/rename/chmod/unlink point, error
          ENOSPC/EFBIG/EIO/EINTR/... at every such call, RLIMIT_FSIZE at several byte limits); oracle = file contents.
"""
import json
import stat
from vcheck import *

META = {
    "category": "proof",
    "text": "Coq model of a file system (visible and durable content per path; open(O_TRUNC)/create/write (short, failing, "
            "EINTR)/fsync/close/rename/unlink; a crash after ANY prefix of the system-call trace). Theorems: the truncate-then-write "
            "protocol (std::fs::write) is unsafe for all non-empty contents and leaves exactly a proper prefix under a size limit; the "
            "write-temp-then-rename program of write_file_atomically leaves exactly the old or the new content for ALL contents, ALL "
            "fault sequences and ALL crash points (killed process and power loss); a one-pass checker protocol_safe is sound and "
            "complete. Tie: the write call of luafmt --write is read off the source into a generated Coq table (re-proved each run) and "
            "the real binary is run under strace, undisturbed and under every injected fault; each observed trace is evaluated in Coq "
            "(model predicts the file read back; protocol_safe; trace = modelled program under the observed results). Search: kill / "
            "errno / RLIMIT_FSIZE injection at every call of runs over several files; oracle: file = old or formatted text.",
    "note": "Trusted: Coq kernel; the file-system semantics (journalled meta-data, data durable only by fsync; no torn renames); strace's "
            "report of the calls; the Linux kernel. The formatter's output text itself is not part of this property. Axioms: none.",
    "technique": "Coq proof (invariant over all fault oracles and crash prefixes) + source translator + strace trace validation in Coq + fault-injection search",
}

THEOREMS = [("trunc_write_unsafe_refuted", "refutation"), ("trunc_write_unsafe_all", "theorem"),
            ("trunc_write_fault_truncates", "theorem"), ("tmp_rename_safe", "theorem"), ("tmp_rename_completes", "theorem"),
            ("protocol_safe_sound", "theorem"), ("protocol_safe_complete", "theorem"), ("nosync_power_refuted", "refutation"),
            ("source_protocol_safe", "theorem"), ("source_steps_modelled", "table"), ("tmp_rename_example", "example")]

TRUSTED = [
    "Coq 8.16.1 kernel (coqc); vm_compute in Examples, refutation witnesses and the trace evaluation; no native_compute",
    "axioms: none (Print Assumptions: Closed under the global context for every theorem)",
    "file-system semantics of coq/theories/C39/Model.v: content per path, sequential writes at the descriptor offset, rename atomic, "
    "meta-data durable in order, data durable only by fsync; validated on every traced run by predicting the content read back",
    "strace 6.1 (-f -y -xx, -e inject) reports the calls and injects the faults; the translator of checks/C39.py reads the write call "
    "off luafmt.rs / workspace.rs by pattern (fails loudly when the anchor is missing)",
    "the expected new content of a file is what an undisturbed run of the same binary writes (cross-checked with the stdout mode)",
]

SYSCALLS = ("openat,open,creat,write,pwrite64,rename,renameat,renameat2,fsync,fdatasync,close,unlink,unlinkat,"
            "ftruncate,fchmod,fchmodat,chmod")
STEP_PATTERNS = [("create_new(true)", "SCreateNew"), ("set_permissions(", "SSetPerm"), ("write_all(", "SWriteAll"),
                 ("sync_all(", "SSyncAll"), ("fs::rename(", "SRename"), ("fs::remove_file(", "SRemoveOnError")]


# ------------------------------------------------------------------------------------------------ translator
def gen_writes(ck):
    """which write call does the --write branch use?  -> Gen/C39_Writes.v ; returns protocol name or None"""
    bin_rs = os.path.join(REPO, "crates/emmylua_formatter/src/bin/luafmt.rs")
    ws_rs = os.path.join(REPO, "crates/emmylua_formatter/src/workspace.rs")
    try:
        src = open(bin_rs, encoding="utf8").read()
        ws = open(ws_rs, encoding="utf8").read()
    except OSError as e:
        ck.tie_broken("translator C39: source file missing", str(e))
        return None
    loop = src.find("for path in &files")
    m = re.search(r"else if args\.write\s*\{(.*?)\}\s*else if let Some\(out\)", src[loop:], re.S) if loop >= 0 else None
    if not m:
        ck.tie_broken("translator C39: anchor `else if args.write {` not found in luafmt.rs main()", "")
        return None
    branch = m.group(1)
    steps = None
    if re.search(r"\bfs::write\s*\(\s*path\b", branch):
        proto, steps = "TruncWrite", ["SFsWrite"]
    else:
        mm = re.search(r"\b(\w+)\s*\(\s*&?path\b", branch)
        fn = mm.group(1) if mm else None
        body = None
        if fn:
            for text in (ws, src):
                fm = re.search(r"fn\s+%s\s*\(.*?\n\}\n" % re.escape(fn), text, re.S)
                if fm:
                    body = fm.group(0)
                    break
        if body is None:
            ck.tie_broken("translator C39: the --write branch calls neither fs::write(path, ..) nor a function whose body can be found",
                          branch[:600])
            return None
        found = []
        for pat, name in STEP_PATTERNS:
            i = body.find(pat)
            if i >= 0:
                found.append((i, name))
        steps = [n for _, n in sorted(found)]
        proto = "TmpRename" if ("SRename" in steps and "SCreateNew" in steps) else "TruncWrite"
        if re.search(r"\bfs::write\s*\(", body) or "File::create(" in body and "create_new" not in body:
            proto = "TruncWrite"
    digest = hashlib.sha256(branch.encode()).hexdigest()[:16]
    out = ("(** GENERATED by checks/C39.py (translator [gen_writes]) from /repo — do not edit.\n"
           "    source: crates/emmylua_formatter/src/bin/luafmt.rs, [main], branch [args.write] (digest %s);\n"
           "            crates/emmylua_formatter/src/workspace.rs, [write_file_atomically] *)\n"
           "From EV Require Import C39.Model.\n"
           "Definition source_protocol : protocol := %s.\n"
           "Definition source_steps : list stepk := [%s].\n") % (digest, proto, "; ".join(steps))
    path = os.path.join(COQ, "theories/Gen/C39_Writes.v")
    os.makedirs(os.path.dirname(path), exist_ok=True)
    old = open(path).read() if os.path.exists(path) else None
    if old != out:
        with open(path, "w") as fh:
            fh.write(out)
    ck.cov["table_obligations"].append({"table": "Gen/C39_Writes.v", "source_protocol": proto, "source_steps": steps})
    return proto


# ------------------------------------------------------------------------------------------------ inputs
WORDS = ["alpha", "beta", "gamma", "delta", "count", "value", "item", "node", "cfg", "x", "y", "z", "tmp", "résumé", "名前"]


def gen_stmt(rng, depth=0):
    w = lambda: rng.pick(WORDS[:13])
    sp = lambda: rng.pick(["", " ", "  ", "   "])
    k = rng.below(9)
    if k == 0:
        return "local%s %s%s=%s%d" % (sp(), w(), sp(), sp(), rng.below(1000))
    if k == 1:
        return "%s%s=%s%s%s+%s%s" % (w(), sp(), sp(), w(), sp(), sp(), w())
    if k == 2:
        return "print(%s%s,%s%s )" % (sp(), w(), sp(), w())
    if k == 3:
        return "local %s = {%s%s=%d,%s%s = \"%s\" ,}" % (w(), sp(), w(), rng.below(9), sp(), w(), rng.pick(WORDS))
    if k == 4 and depth < 2:
        return "if %s%s>%s%d then\n%s\nend" % (w(), sp(), sp(), rng.below(9), gen_stmt(rng, depth + 1))
    if k == 5 and depth < 2:
        return "function %s(%s,%s%s)\n    return %s\nend" % (w(), w(), sp(), w(), w())
    if k == 6:
        return "--%s %s %s" % (sp(), rng.pick(WORDS), rng.pick(WORDS))
    if k == 7 and depth < 2:
        return "for i=1,%d do %s end" % (rng.below(20), gen_stmt(rng, depth + 1))
    return "%s(%s%s )" % (w(), sp(), w())


def gen_file(rng, nstmts, eol="\n"):
    return eol.join(gen_stmt(rng) for _ in range(nstmts)) + eol


def gen_scenario(rng, idx, big=False):
    m = 1 + rng.below(3)
    files = []
    for j in range(m):
        kind = rng.below(10)
        n = 1 + rng.below(6)
        if big and j == 0:
            n = 300 + rng.below(900)
        text = gen_file(rng, n, "\r\n" if kind == 0 else "\n")
        if kind == 1:
            text = "local a = 1\n"          # already formatted: no write expected
        name = rng.pick(["a", "b", "mod", "init", "util"]) + "%d.lua" % j
        files.append({"name": name, "text": text, "mode": rng.pick([0o644, 0o644, 0o600, 0o664])})
    return {"id": "gen%d" % idx, "files": files}


def load_corpus():
    out = []
    d = os.path.join(VERIF, "corpus", "C39")
    if os.path.isdir(d):
        for n in sorted(os.listdir(d)):
            if n.endswith(".json"):
                for sc in json.load(open(os.path.join(d, n))):
                    for f in sc["files"]:
                        if f.get("repeat"):
                            f["text"] = f["text"] * int(f["repeat"])
                    out.append(sc)
    return out


# ------------------------------------------------------------------------------------------------ running
WRAP = ("import resource,signal,os,sys\n"
        "signal.signal(signal.SIGXFSZ, signal.SIG_IGN)\n"
        "l=int(sys.argv[1]); resource.setrlimit(resource.RLIMIT_FSIZE,(l,l))\n"
        "os.execv(sys.argv[2], sys.argv[2:])\n")


def materialise(d, sc):
    shutil.rmtree(d, ignore_errors=True)
    os.makedirs(d)
    paths = []
    for f in sc["files"]:
        p = os.path.join(d, f["name"])
        with open(p, "wb") as fh:
            fh.write(f["text"].encode("utf8"))
        os.chmod(p, f.get("mode", 0o644))
        paths.append(p)
    return paths


def run_luafmt(luafmt, d, paths, fault=None, trace=True, maxlen=100000):
    """returns (rc, stderr, trace_text or None)"""
    trf = d + ".strace"
    if os.path.exists(trf):
        os.remove(trf)
    cmd = []
    if trace or (fault and fault["kind"] in ("kill", "err")):
        cmd = ["strace", "-f", "-y", "-xx", "-s", str(maxlen + 64), "-e", "trace=" + SYSCALLS, "-o", trf]
        if fault and fault["kind"] == "kill":
            cmd += ["-e", "inject=%s:signal=KILL:when=%d" % (fault["syscall"], fault["when"])]
        if fault and fault["kind"] == "err":
            cmd += ["-e", "inject=%s:error=%s:when=%d" % (fault["syscall"], fault["errno"], fault["when"])]
    if fault and fault["kind"] == "fsize":
        cmd += [sys.executable, "-c", WRAP, str(fault["limit"])]
    cmd += [luafmt, "--write"] + paths
    try:
        p = subprocess.run(cmd, cwd=d, stdin=subprocess.DEVNULL, stdout=subprocess.PIPE, stderr=subprocess.PIPE, timeout=120)
        rc, err = p.returncode, p.stderr.decode("utf8", "replace")
    except subprocess.TimeoutExpired:
        rc, err = 124, "TIMEOUT"
    tr = None
    if os.path.exists(trf):
        tr = open(trf, encoding="latin1").read()
    return rc, err, tr


def read_files(paths):
    out = []
    for p in paths:
        try:
            out.append(open(p, "rb").read())
        except OSError:
            out.append(None)
    return out


# ------------------------------------------------------------------------------------------------ strace -> events
LINE = re.compile(r"^(\d+)\s+(\w+)\((.*)\)\s+=\s+(-?\d+|\?)(?:<([^>]*)>)?(?:\s+(E\w+)\s+\(.*?\))?(\s+\(INJECTED\))?\s*$")


def unhex(s):
    s = s.strip()
    if s.startswith('"'):
        s = s[1:s.rindex('"')]
    return bytes.fromhex(s.replace("\\x", ""))


def fd_path(a):
    m = re.match(r"^(-?\w+)<(.*)>$", a.strip())
    if not m:
        return a.strip(), None
    return m.group(1), unhex(m.group(2)).decode("utf8", "replace")


def parse_trace(text, workdir):
    """-> (events, killed, problems); an event is a dict {call, path[, path2], data, ok, errno, kind}
    only calls on paths under workdir are kept"""
    ev, problems, killed = [], [], False
    wfds = {}
    wd = workdir.rstrip("/") + "/"

    def rel(p):
        return p is not None and p.startswith(wd)

    def absj(base, p):
        return os.path.normpath(p if p.startswith("/") else os.path.join(base or workdir, p))

    for line in jlines(text):
        if "+++ killed by" in line:
            killed = True
            continue
        if "+++ exited" in line or " --- SIG" in line or line.strip() == "":
            continue
        if "<unfinished" in line or "resumed>" in line:
            problems.append("interleaved call: " + line[:120])
            continue
        m = LINE.match(line)
        if not m:
            problems.append("unparsed: " + line[:160])
            continue
        call, args, ret, retpath, errno = m.group(2), m.group(3), m.group(4), m.group(5), m.group(6)
        a = args.split(", ")
        done = ret != "?"
        ok = done and not ret.startswith("-")
        if call in ("openat", "open", "creat"):
            if call == "openat":
                _, base = fd_path(a[0])
                p, flags = unhex(a[1]).decode("utf8", "replace"), a[2]
            elif call == "open":
                base, p, flags = None, unhex(a[0]).decode("utf8", "replace"), a[1]
            else:
                base, p, flags = None, unhex(a[0]).decode("utf8", "replace"), "O_WRONLY|O_CREAT|O_TRUNC"
            path = unhex(retpath).decode("utf8", "replace") if (ok and retpath) else absj(base, p)
            if not rel(path):
                continue
            fl = set(flags.split("|"))
            if not ({"O_WRONLY", "O_RDWR"} & fl):
                continue
            kind = "trunc" if "O_TRUNC" in fl else ("create" if {"O_CREAT", "O_EXCL"} <= fl else "openw")
            if ok:
                wfds[ret] = path
            ev.append({"call": "open", "kind": kind, "path": path, "ok": ok, "done": done, "errno": errno})
        elif call in ("write", "pwrite64"):
            fd, path = fd_path(a[0])
            if not rel(path):
                continue
            data = unhex(a[1])
            n = int(ret) if ok else 0
            e = {"call": "write", "path": path, "data": data[:n], "ok": ok, "done": done, "errno": errno, "asked": len(data)}
            if call == "pwrite64":
                e["offset"] = int(a[3])
            ev.append(e)
        elif call == "close":
            fd, path = fd_path(a[0])
            if rel(path) and fd in wfds:
                if done:
                    del wfds[fd]
                ev.append({"call": "close", "path": path, "ok": ok, "done": done, "errno": errno})
        elif call in ("fsync", "fdatasync", "ftruncate", "fchmod"):
            fd, path = fd_path(a[0])
            if rel(path):
                e = {"call": {"fdatasync": "fsync"}.get(call, call), "path": path, "ok": ok, "done": done, "errno": errno}
                if call == "ftruncate":
                    e["len"] = int(a[1])
                ev.append(e)
        elif call in ("chmod", "fchmodat"):
            if call == "chmod":
                path = absj(None, unhex(a[0]).decode("utf8", "replace"))
            else:
                _, base = fd_path(a[0])
                path = absj(base, unhex(a[1]).decode("utf8", "replace"))
            if rel(path):
                ev.append({"call": "fchmod", "path": path, "ok": ok, "done": done, "errno": errno})
        elif call in ("rename", "renameat", "renameat2"):
            if call == "rename":
                p1, p2 = absj(None, unhex(a[0]).decode("utf8", "replace")), absj(None, unhex(a[1]).decode("utf8", "replace"))
            else:
                _, b1 = fd_path(a[0])
                _, b2 = fd_path(a[2])
                p1, p2 = absj(b1, unhex(a[1]).decode("utf8", "replace")), absj(b2, unhex(a[3]).decode("utf8", "replace"))
            if rel(p1) or rel(p2):
                ev.append({"call": "rename", "path": p1, "path2": p2, "ok": ok, "done": done, "errno": errno})
        elif call in ("unlink", "unlinkat"):
            if call == "unlink":
                path = absj(None, unhex(a[0]).decode("utf8", "replace"))
            else:
                _, base = fd_path(a[0])
                path = absj(base, unhex(a[1]).decode("utf8", "replace"))
            if rel(path):
                ev.append({"call": "unlink", "path": path, "ok": ok, "done": done, "errno": errno})
    return ev, killed, problems


def count_calls(text):
    """occurrences of each traced call in the whole process (for `when=K`) and the K's that concern workdir files"""
    counts = {}
    for line in jlines(text):
        m = re.match(r"^\d+\s+(\w+)\(", line)
        if m:
            counts[m.group(1)] = counts.get(m.group(1), 0) + 1
    return counts


def relevant_whens(text, workdir):
    """per syscall name: the 1-based indices (strace `when=`) of the calls that name a path under workdir"""
    wd = workdir.rstrip("/") + "/"
    hexwd = "".join("\\x%02x" % b for b in wd.encode())
    idx, out = {}, {}
    for line in jlines(text):
        m = re.match(r"^\d+\s+(\w+)\(", line)
        if not m:
            continue
        c = m.group(1)
        idx[c] = idx.get(c, 0) + 1
        if hexwd in line:
            out.setdefault(c, []).append(idx[c])
    return out


# ------------------------------------------------------------------------------------------------ events -> Coq case
class Interner:
    def __init__(self):
        self.ids, self.defs = {}, []

    def get(self, b):
        if b not in self.ids:
            self.ids[b] = "d%d" % len(self.ids)
            self.defs.append("Definition %s : data := %s." % (self.ids[b], coq_list([str(x) for x in b])))
        return self.ids[b]


def case_for_target(ev, killed, target, old, new, final, proto, interner):
    paths = sorted({p for e in ev for p in (e["path"], e.get("path2")) if p and p != target})
    pid = {target: 0}
    for i, p in enumerate(paths):
        pid[p] = i + 1
    ops = []
    for e in ev:
        if not e["done"]:
            continue
        c, p = e["call"], pid[e["path"]]
        if c == "open":
            if e["ok"]:
                ops.append({"trunc": "OOpenTrunc %d", "create": "OCreate %d", "openw": "OOpenWrite %d"}[e["kind"]] % p)
        elif c == "write":
            if not e["ok"]:
                ops.append("OWriteFail %d" % p)
            elif "offset" in e:
                ops.append("OPwrite %d %d %s" % (p, e["offset"], interner.get(e["data"])))
            else:
                ops.append("OWrite %d %s" % (p, interner.get(e["data"])))
        elif c == "close":
            ops.append("OClose %d" % p)
        elif c == "fsync":
            ops.append(("OFsync %d" if e["ok"] else "OFsyncFail %d") % p)
        elif c == "fchmod":
            ops.append(("OChmod %d" if e["ok"] else "OChmodFail %d") % p)
        elif c == "ftruncate":
            if e["ok"]:
                ops.append("OTruncate %d %d" % (p, e["len"]))
        elif c == "rename":
            ops.append(("ORename %d %d" if e["ok"] else "ORenameFail %d %d") % (p, pid[e["path2"]]))
        elif c == "unlink":
            if e["ok"]:
                ops.append("OUnlink %d" % p)
    # the temp file of this target: what is renamed onto it, else an exclusive creation named after it
    tmp = None
    base = os.path.basename(target)
    for e in ev:
        if e["call"] == "rename" and e.get("path2") == target:
            tmp = e["path"]
    if tmp is None:
        for e in ev:
            if e["call"] == "open" and e["kind"] == "create" and base in os.path.basename(e["path"]) and \
                    os.path.dirname(e["path"]) == os.path.dirname(target):
                tmp = e["path"]
    tmp_id = pid.get(tmp, len(paths) + 7) if tmp else len(paths) + 7
    # results of the fallible calls on target / temp file, in order
    oracle = []
    remaining = {}
    for e in ev:
        if e["path"] not in (target, tmp) and e.get("path2") not in (target,):
            continue
        if not e["done"]:
            break
        c = e["call"]
        if c == "open":
            oracle.append("Ok" if e["ok"] else "Err")
            remaining[e["path"]] = len(new)
        elif c == "fchmod" or c == "fsync" or c == "rename":
            oracle.append("Ok" if e["ok"] else "Err")
        elif c == "write":
            if not e["ok"]:
                oracle.append("Intr" if e["errno"] == "EINTR" else "Err")
            else:
                n = len(e["data"])
                rem = remaining.get(e["path"], len(new))
                oracle.append("Ok" if n >= rem else "Short %d" % n)
                remaining[e["path"]] = rem - n
    attempted = tmp is not None or any(e["call"] == "open" and e["kind"] == "trunc" and e["path"] == target for e in ev)
    # the program is only started for a file that could be read and that formatting changes
    changed = old != new and (attempted or killed)
    term = ("{| c_old := %s; c_new := %s; c_trace := %s; c_final := %s; c_tmp := %d; c_oracle := %s; c_killed := %s; c_changed := %s |}"
            % (interner.get(old), interner.get(new), coq_list(ops),
               "None" if final is None else "(Some %s)" % interner.get(final), tmp_id, coq_list(oracle),
               "true" if killed else "false", "true" if changed else "false"))
    return term, {"ops": ops, "oracle": oracle, "tmp": tmp, "killed": killed}


# ------------------------------------------------------------------------------------------------ faults
ERRNOS = {"write": ["ENOSPC", "EFBIG", "EIO", "EINTR"], "openat": ["ENOSPC", "EACCES"], "fsync": ["EIO"], "rename": ["EACCES", "EXDEV"],
          "fchmod": ["EPERM"]}
KILLS = ["openat", "write", "close", "fsync", "rename", "fchmod", "unlink"]


def enumerate_faults(trace_text, workdir, news, full):
    whens = relevant_whens(trace_text, workdir)
    faults = []
    for sc in KILLS:
        for k in whens.get(sc, []):
            faults.append({"kind": "kill", "syscall": sc, "when": k})
    for sc, errs in ERRNOS.items():
        for k in whens.get(sc, []):
            for e in (errs if full else errs[:2]):
                faults.append({"kind": "err", "syscall": sc, "errno": e, "when": k})
    lens = sorted({len(n) for n in news if n})
    limits = {0, 1}
    for L in lens:
        limits.update({L // 2, L - 1, L})
    for L in sorted(limits):
        if L >= 0:
            faults.append({"kind": "fsize", "limit": L})
    return faults


def fault_name(f):
    if f["kind"] == "kill":
        return "kill@%s" % f["syscall"]
    if f["kind"] == "err":
        return "%s@%s" % (f["errno"].lower(), f["syscall"])
    return "fsize-limit"


def classify(content, old, new):
    if content is None:
        return "missing"
    if content == b"":
        return "empty"
    if new.startswith(content):
        return "truncated"
    return "mixed"


# ------------------------------------------------------------------------------------------------ one scenario
def run_scenario(ck, luafmt, sc, proto, tie, full, interner, terms, infos, stats):
    d = os.path.join(ck.work, "sc_" + re.sub(r"\W", "_", sc["id"]))
    paths = materialise(d, sc)
    olds = read_files(paths)
    rc, err, tr0 = run_luafmt(luafmt, d, paths, None, True, max(len(x) for x in olds) * 3 + 4096)
    news = read_files(paths)
    if rc not in (0,) or tr0 is None:
        ck.tie_broken("undisturbed `luafmt --write` failed (rc=%s) on scenario %s" % (rc, sc["id"]), err[-600:])
        return
    # cross-check the expected new text with the stdout mode on the first file
    materialise(d, sc)
    p = subprocess.run([luafmt, paths[0]], cwd=d, stdin=subprocess.DEVNULL, capture_output=True, timeout=120)
    if p.returncode == 0 and p.stdout != news[0]:
        ck.tie_broken("expected-new oracle inconsistent: --write and stdout mode differ on %s" % sc["id"], "")
        return
    ev0, k0, prob = parse_trace(tr0, d)
    if prob:
        ck.tie_broken("strace output of scenario %s not understood" % sc["id"], "\n".join(prob[:5]))
        return
    changed = sum(1 for o, n in zip(olds, news) if o != n)
    stats["scenarios"] += 1
    stats["files"] += len(paths)
    stats["changed_files"] += changed
    nontrivial = changed > 0
    key0 = tuple((f["name"], f["text"]) for f in sc["files"])

    def add_cases(ev, killed, finals, fault):
        for pth, o, n, fin in zip(paths, olds, news, finals):
            t, info = case_for_target(ev, killed, pth, o, n, fin, proto, interner)
            terms.append(t)
            info.update({"scenario": sc["id"], "file": os.path.basename(pth), "fault": fault, "old_len": len(o), "new_len": len(n)})
            infos.append(info)

    if tie:
        add_cases(ev0, k0, news, None)
    ck.count_case(("run", key0, None), nontrivial)
    stats["runs"] += 1
    faults = enumerate_faults(tr0, d, news, full)
    maxlen = max([len(x) for x in olds + news if x is not None] + [64])

    def one(i_f):
        i, f = i_f
        df = "%s_f%d" % (d, i)
        ps = materialise(df, sc)
        rc, err, tr = run_luafmt(luafmt, df, ps, f, tie, maxlen)
        finals = read_files(ps)
        leftovers = [n for n in os.listdir(df) if n not in [x["name"] for x in sc["files"]]]
        parsed = None
        if tie and tr is not None:
            parsed = parse_trace(tr, df)
            # paths of this private copy -> paths of the scenario directory
            for e in parsed[0]:
                for k in ("path", "path2"):
                    if e.get(k):
                        e[k] = d + e[k][len(df):] if e[k].startswith(df) else e[k]
        shutil.rmtree(df, ignore_errors=True)
        if os.path.exists(df + ".strace"):
            os.remove(df + ".strace")
        return f, finals, leftovers, parsed

    from concurrent.futures import ThreadPoolExecutor
    with ThreadPoolExecutor(max_workers=min(8, NCPU)) as ex:
        results = list(ex.map(one, enumerate(faults)))
    for f, finals, leftovers, parsed in results:
        stats["runs"] += 1
        stats["by_fault"][fault_name(f)] = stats["by_fault"].get(fault_name(f), 0) + 1
        ck.count_case(("run", key0, json.dumps(f, sort_keys=True)), nontrivial)
        if leftovers and f["kind"] != "kill":
            stats["leftover_temp_after_error"] += 1
        for pth, o, n, fin, fdesc in zip(paths, olds, news, finals, sc["files"]):
            if fin != o and fin != n:
                cls = classify(fin, o, n)
                sig = "%s:%s" % (fault_name(f), cls)
                what = ("after %s (%s) the file %s holds %d bytes (%s): neither its %d original bytes nor the %d formatted bytes"
                        % (fault_name(f), json.dumps(f, sort_keys=True), fdesc["name"], -1 if fin is None else len(fin), cls, len(o), len(n)))
                ck.violation(sig, what, {"scenario": sc, "fault": f, "file": fdesc["name"],
                                         "content_after": None if fin is None else fin.decode("utf8", "replace")[:2000]})
                stats["violations"] += 1
            elif fin == n and o != n:
                stats["files_new_after_fault"] += 1
            else:
                stats["files_old_after_fault"] += 1
        if parsed is not None:
            ev, killed, prob = parsed
            if prob:
                ck.tie_broken("strace output (fault %s) of scenario %s not understood" % (fault_name(f), sc["id"]), "\n".join(prob[:5]))
            else:
                add_cases(ev, killed, finals, f)
    if len(ck.cov["samples"]) < 3:
        ck.sample({"kind": "scenario", "id": sc["id"], "files": [{"name": f["name"], "bytes": len(f["text"].encode()), "head": f["text"][:60]} for f in sc["files"]],
                   "faults_injected": len(faults), "first_faults": faults[:4]})
    shutil.rmtree(d, ignore_errors=True)
    if os.path.exists(d + ".strace"):
        os.remove(d + ".strace")


def evaluate_cases(ck, terms, infos, proto):
    if not terms:
        return
    # nothing to say when Corr.vo could not be built
    if not os.path.exists(os.path.join(COQ, "theories/C39/Corr.vo")):
        return
    prelude = ck._c39_prelude
    req = ["EV.C39.Model", "EV.C39.Corr"]
    failing = ck.coq_failing("traces", terms, req, check_fn="check_case", case_type="case", per_shard=60, prelude=prelude)
    if failing is None or not failing:
        return
    sub = [terms[i] for i in failing]
    n0 = ck.cov["traces_validated_against_impl"]
    res = {}
    for fn in ("check_model", "check_safe", "check_instance"):
        r = ck.coq_failing("traces_" + fn, sub, req, check_fn=fn, case_type="case", per_shard=60, prelude=prelude)
        res[fn] = set() if r is None else set(r)
    ck.cov["traces_validated_against_impl"] = n0
    for j, i in enumerate(failing):
        info = infos[i]
        brief = json.dumps({k: info[k] for k in ("scenario", "file", "fault", "ops", "oracle", "old_len", "new_len")})[:3000]
        if j in res["check_model"]:
            ck.tie_broken("file-system model does not predict the content read back (%s, %s)" % (info["scenario"], info["file"]), brief)
        if j in res["check_safe"]:
            ck.proof_broken("protocol_safe rejects an observed run of luafmt --write: a crash point of this trace leaves the target "
                            "neither old nor new (%s, %s, fault %s)" % (info["scenario"], info["file"], json.dumps(info["fault"])), brief)
        if j in res["check_instance"]:
            ck.tie_broken("observed calls are not those of the modelled program of protocol %s (%s, %s, fault %s)"
                          % (proto, info["scenario"], info["file"], json.dumps(info["fault"])), brief)


def replay(ck, luafmt, path):
    data = json.load(open(path))
    for v in data.get("violations", []):
        c = v["case"]
        sc, f = c["scenario"], c["fault"]
        d = os.path.join(ck.work, "replay")
        paths = materialise(d, sc)
        olds = read_files(paths)
        run_luafmt(luafmt, d, paths, None, False)
        news = read_files(paths)
        materialise(d, sc)
        run_luafmt(luafmt, d, paths, f, False)
        finals = read_files(paths)
        for pth, o, n, fin, fdesc in zip(paths, olds, news, finals, sc["files"]):
            if fin != o and fin != n:
                cls = classify(fin, o, n)
                ck.violation("%s:%s" % (fault_name(f), cls),
                             "replay: after %s the file %s holds %d bytes (%s), neither old (%d) nor new (%d)"
                             % (fault_name(f), fdesc["name"], -1 if fin is None else len(fin), cls, len(o), len(n)), c)


def main(argv):
    ck = Check("C39", argv)
    if shutil.which("strace") is None:
        ck.tie_broken("strace is not installed: the trace tie and the injection search cannot run", "")
        ck.finish(trusted_base=TRUSTED)
    luafmt = ck.build_repo_bin("emmylua_formatter", "luafmt")
    if ck.replay and luafmt:
        replay(ck, luafmt, ck.replay)
        ck.finish(trusted_base=TRUSTED)
    proto = gen_writes(ck)
    ok = ck.coq_make(["theories/C39/Props.vo", "theories/C39/Corr.vo"])
    if ok:
        ck.coq_gates(["C39"], THEOREMS, "EV.C39.Props")
        ck.cov["obligations"] += 1          # the generated table Gen/C39_Writes.v
        ck.cov["discharged"] += 1
    else:
        # Corr.vo does not depend on Props: still try to have it for the trace evaluation
        sh(["make", "-f", "Makefile.coq", "theories/C39/Corr.vo"], cwd=COQ, timeout=900)
    if ck.broken:
        ck.deep = True
    if luafmt:
        rng = Rng(ck.seed ^ 0xC39)
        stats = {"scenarios": 0, "files": 0, "changed_files": 0, "runs": 0, "violations": 0, "by_fault": {},
                 "files_old_after_fault": 0, "files_new_after_fault": 0, "leftover_temp_after_error": 0}
        interner = Interner()
        terms, infos = [], []
        corpus = load_corpus()
        n_tie = ck.scale(2, 8)
        n_search = ck.scale(4, 40)
        scenarios = [(sc, True) for sc in corpus if not sc.get("search_only")]
        scenarios += [(gen_scenario(rng, i), True) for i in range(n_tie)]
        scenarios += [(sc, False) for sc in corpus if sc.get("search_only")]
        scenarios += [(gen_scenario(rng, 100 + i, big=(i % 3 == 0)), False) for i in range(n_search)]
        full = ck.tier == "thorough" or ck.deep
        for sc, tie in scenarios:
            run_scenario(ck, luafmt, sc, proto, tie, full, interner, terms, infos, stats)
            ck.log("scenario", sc["id"], "runs so far", stats["runs"], "violations", stats["violations"])
            if stats["violations"] > 40:
                break
        ck._c39_prelude = "\n".join(interner.defs) + "\n"
        ck.log("evaluating", len(terms), "traces in Coq")
        evaluate_cases(ck, terms, infos, proto)
        ck.cov["distribution"] = stats
        ck.cov["distribution"]["traces_in_coq"] = len(terms)
        if infos:
            i = min(len(infos) - 1, 7)
            ck.sample({"kind": "trace case evaluated in Coq", **{k: infos[i][k] for k in ("scenario", "file", "fault", "ops", "oracle")}})
    ck.finish(
        trusted_base=TRUSTED,
        rule="scenario = 1-3 generated Lua files (odd spacing, CRLF, already-formatted, large) plus the corpus; per scenario one "
             "undisturbed traced run and one run per fault: SIGKILL at every openat/write/close/fsync/rename/fchmod/unlink call that names a "
             "scenario file, errno injection (ENOSPC, EFBIG, EIO, EINTR, EACCES, EXDEV, EPERM) at every such call, RLIMIT_FSIZE at 0, 1, "
             "len/2, len-1, len; a case is (scenario, fault); non-trivial = at least one file of the scenario is changed by formatting; "
             "distinct by file texts and fault",
        assumptions=["process kill and failing calls are the faults of the property text; the power-loss part of the theorems rests on the "
                     "stated journalling assumptions and is not exercised by the search",
                     "the fault search is exhaustive over single faults of the generated runs, not over multiple simultaneous faults "
                     "(the theorem tmp_rename_safe covers all fault sequences)"])
