"""shared by C15 and C41: flow narrowing on the fragment F (harness vh_analysis/c15, model EV.C15.Model)"""
import json
from vcheck import *

TAGS = ["TgNil", "TgBool", "TgNum", "TgStr", "TgTab", "TgFun"]
ATOMS = ["ANil", "AFalse", "ATrue", "ANum", "AStr", "ATab", "AFun"]
FUEL = 12

TRUSTED = [
    "Coq 8.16.1 kernel (coqc), vm_compute used in Examples, refutation witnesses and in the correspondence evaluation; no native_compute",
    "axioms: none (Print Assumptions: Closed under the global context for every theorem)",
    "hand-written model coq/theories/C15/Model.v: (T) the LuaType operations used by narrowing, (B) the three-mode backward flow "
    "walk of semantic/infer/narrow/get_type_at_flow.rs over the graph built by compilation/analyzer/flow/bind_analyze, written as a "
    "forward per-variable interpreter; tied by the correspondence check (harness vh_analysis/src/bin/c15.rs + coq/theories/C15/Corr.v), "
    "which also compares the exact LuaType (reported separately)",
    "semantics (A) of the fragment is a Gallina interpreter over type tags (booleans keep their truth value); the harness's copy used by "
    "the search is compared with it in every correspondence case; no Lua VM is involved",
    "opaque conditions (undefined globals c0, c1, ..) are nondeterministic booleans read from an oracle on every evaluation",
    "modelling assumptions: all locals are declared at the top of the chunk; `break` only as `if c then .. break end`; numeric for with "
    "literal bounds and an unused loop variable; no generic for",
]


def c_lit(l):
    k = l[0]
    if k == "nil":
        return "LNil"
    if k == "bool":
        return "(LBool %s)" % ("true" if l[1] else "false")
    return "(%s %d)" % ({"int": "LInt", "float": "LFloat", "str": "LStr", "table": "LTable", "fun": "LFun"}[k], l[1])


def c_cond(c):
    k = c[0]
    if k in ("type", "typef"):
        return "(%s %d%%nat %s)" % ("CType" if k == "type" else "CTypeF", c[1], TAGS[c[2]])
    if k in ("eqnil", "nenil", "var", "eqnilf", "nenilf"):
        return "(%s %d%%nat)" % ({"eqnil": "CEqNil", "nenil": "CNeNil", "var": "CVar", "eqnilf": "CEqNilF", "nenilf": "CNeNilF"}[k], c[1])
    if k == "opq":
        return "(COpq %d)" % c[1]
    if k == "not":
        return "(CNot %s)" % c_cond(c[1])
    return "(%s %s %s)" % ("CAnd" if k == "and" else "COr", c_cond(c[1]), c_cond(c[2]))


def c_block(b):
    out = "BNil"
    for s in reversed(b):
        out = "(BCons %s %s)" % (c_stmt(s), out)
    return out


def c_rest(arms, els):
    if not arms:
        return "RNone" if els is None else "(RElse %s)" % c_block(els)
    c, b = arms[0]
    return "(RElif %s %s %s)" % (c_cond(c), c_block(b), c_rest(arms[1:], els))


def c_stmt(s):
    k = s[0]
    if k == "assign":
        return "(SAssign %d%%nat %s)" % (s[1], c_lit(s[2]))
    if k == "probe":
        return "(SProbe %d %d%%nat)" % (s[1], s[2])
    if k == "if":
        c, b = s[1][0]
        return "(SIf %s %s %s)" % (c_cond(c), c_block(b), c_rest(s[1][1:], s[2]))
    if k == "while":
        return "(SWhile %s %s)" % (c_cond(s[1]), c_block(s[2]))
    if k == "whiletrue":
        return "(SWhileTrue %s)" % c_block(s[1])
    if k == "repeat":
        return "(SRepeat %s %s)" % (c_block(s[1]), c_cond(s[2]))
    if k == "for":
        return "(SFor %d %d %s)" % (s[1], s[2], c_block(s[3]))
    if k == "breakif":
        return "(SBreakIf %s %s)" % (c_cond(s[1]), c_block(s[2]))
    if k == "assert":
        return "(SAssert %s)" % c_cond(s[1])
    if k == "returnif":
        return "(SReturnIf %s %s %s)" % ("true" if s[1] else "false", c_cond(s[2]), c_block(s[3]))
    raise ValueError(k)


def c_prog(p):
    return "{| decls := %s; body := %s |}" % (coq_list([c_lit(l) for l in p["decls"]]), c_block(p["body"]))


def c_bty(m):
    simple = {"nil": "Nil", "never": "Never", "unknown": "Unknown", "boolean": "Boolean", "true": "(BoolC true)", "false": "(BoolC false)",
              "integer": "Integer", "number": "Number", "string": "String_", "table": "Table", "function": "Function"}
    if m in simple:
        return simple[m]
    if m.startswith("s:s"):
        return "(StrC %d)" % int(m[3:])
    if m[0] == "i" and m[1:].isdigit():
        return "(IntC %d)" % int(m[1:])
    if m[0] == "f" and m.endswith(".5"):
        return "(FloatC %d)" % int(m[1:-2])
    if m[0] == "t" and m[1:].isdigit():
        return "(TableC %d)" % int(m[1:])
    if m[0] == "g" and m[1:].isdigit():
        return "(Sig %d)" % int(m[1:])
    return None


def c_ty(canon):
    """canonical rendering of the harness -> Coq term, or None when the type is outside the modelled LuaType subset"""
    if canon.startswith("["):
        ms = [c_bty(m) for m in canon[1:-1].split(",")]
        if any(m is None for m in ms):
            return None
        return "(U %s)" % coq_list(ms)
    b = c_bty(canon)
    return None if b is None else "(B %s)" % b


def coq_string(s):
    return '"' + s.replace('"', '""') + '"'


def case_to_coq(c):
    """None when an observation cannot be expressed (reported by the caller)"""
    obs = []
    for o, inl in zip(c["obs"], c["inloop"]):
        if o.get("err"):
            return None
        t = c_ty(o["c"])
        if t is None:
            return None
        obs.append("(%s, %s)" % (t, "true" if inl else "false"))
    reach = [coq_list([ATOMS[v] for v in r]) for r in c["reach"]]
    known = ["(%d%%nat, %s)" % (x, "true" if k else "false") for x, k in zip(c["pvar"], c["known"])]
    return "{| c_prog := %s; c_text := %s; c_k := %d%%nat; c_fuel := %d%%nat; c_obs := %s; c_known := %s; c_reach := %s |}" % (
        c_prog(c["p"]), coq_string(c["text"]), c["k"], FUEL, coq_list(obs), coq_list(known), coq_list(reach))


def correspondence(ck, binpath, n, loops):
    args = ["corr", "--seed", ck.seed, "--n", n] + (["--loops", "1"] if loops else [])
    rc, out, err = ck.run_bin(binpath, args)
    if rc != 0:
        ck.tie_broken("harness c15 corr failed", err[-2000:])
        return
    cases = [json.loads(l) for l in jlines(out) if l.strip()]
    terms, kept = [], []
    for c in cases:
        t = case_to_coq(c)
        if t is None:
            ck.tie_broken("the analyzer produced a type outside the modelled subset (or failed to infer) on a program of the fragment",
                          json.dumps({"text": c["text"], "obs": c["obs"]})[:3000])
            continue
        terms.append(t)
        kept.append(c)
    name = "corr41" if loops else "corr15"
    req = ["EV.C15.Model", "EV.C15.Print", "EV.C15.Corr"]
    # one coqc run per shard evaluates the tie (check_case: same value sets, same semantics, same text, same shape classes)
    # and the stricter, informative comparison (check_case_exact: the very same LuaType)
    n = len(terms)
    nshard = min(NCPU, max(1, n // 30))
    idxs = [list(range(i, n, nshard)) for i in range(nshard)]
    bodies = []
    for ids in idxs:
        b = ("Require Import Coq.Lists.List Coq.NArith.NArith Coq.Strings.String.\nImport ListNotations.\n"
             "Local Open Scope N_scope.\nLocal Open Scope string_scope.\n")
        b += "Definition cases__ : list case := [\n%s].\n" % ";\n".join(terms[i] for i in ids)
        b += ("Definition failing__ (f : case -> bool) := (fix go (cs : list case) (i : N) : list N := match cs with [] => [] | c :: r => "
              "if f c then go r (i + 1) else i :: go r (i + 1) end) cases__ 0.\n")
        b += "Eval vm_compute in (failing__ check_case, failing__ check_case_exact).\n"
        bodies.append(b)
    results = ck.coq_eval_shards(name, bodies, req, 1800) if n else []
    failing, exact, bad = [], [], False
    for (rc, out), ids in zip(results, idxs):
        m = re.search(r"=\s*\(\s*\[(.*?)\]\s*,\s*\[(.*?)\]\s*\)\s*:", out, re.S) if rc == 0 else None
        if not m:
            ck.tie_broken("correspondence evaluation %s did not compile/finish (model or checker broken)" % name, out[-3000:])
            bad = True
            continue
        failing += [ids[int(x)] for x in re.findall(r"\d+", m.group(1))]
        exact += [ids[int(x)] for x in re.findall(r"\d+", m.group(2))]
    ck.cov["traces_validated_against_impl"] += n
    for i in sorted(failing)[:5]:
        c = kept[i]
        ck.tie_broken("model/implementation disagreement on the inferred types (or on the semantics copy) of a program of the fragment",
                      json.dumps({"text": c["text"], "obs": [o["c"] for o in c["obs"]], "reach": c["reach"], "p": c["p"]})[:4000])
    if not bad:
        only_exact = [i for i in exact if i not in set(failing)]
        ck.cov["distribution"][name + "_exact_type_mismatches"] = len(only_exact)
        if only_exact:
            ck.notes.append("%d of %d correspondence cases agree on the value sets but not on the exact LuaType representation, e.g. %s" % (
                len(only_exact), n, json.dumps(kept[only_exact[0]]["text"])[:600]))
    nprobes = 0
    for c in kept:
        nprobes += len(c["obs"])
        ck.count_case(("corr", c["text"]), nontrivial=("if " in c["text"]))
    ck.cov["distribution"][name + "_programs"] = len(kept)
    ck.cov["distribution"][name + "_probes"] = nprobes
    if kept:
        c = kept[min(len(kept) - 1, 7)]
        ck.sample({"kind": "correspondence case", "text": c["text"], "analyzer_types": [o["h"] or "never" for o in c["obs"]],
                   "reachable_atoms": c["reach"]})


def search(ck, binpath, n, loops, sigs_mine):
    """sigs_mine(signature) -> bool: does the violation belong to this property"""
    args = ["search", "--seed", ck.seed, "--n", n] + (["--loops", "1"] if loops else [])
    rc, out, err = ck.run_bin(binpath, args)
    if rc != 0:
        ck.tie_broken("harness c15 search failed", err[-2000:])
        return
    for l in jlines(out):
        if not l.strip():
            continue
        v = json.loads(l)
        if "summary" in v:
            ck.cov["distribution"]["search_loops" if loops else "search"] = v["summary"]
            ck.add_measured(v["summary"]["cases"], v["summary"]["distinct_nontrivial"])
            continue
        if sigs_mine(v["signature"]):
            ck.violation(v["signature"], "%s in\n%s" % (v["what"], v["text"]), {"p": v["p"], "text": v["text"], "what": v["what"]})


def replay(ck, binpath, path, sigs_mine):
    data = json.load(open(path))
    for v in data.get("violations", []):
        p = v["case"].get("p")
        rc, out, err = ck.run_bin(binpath, ["one", "--case-json", json.dumps({"p": p})])
        lines = jlines(out)
        text = json.loads(lines[0])["text"] if lines else ""
        for l in lines[1:]:
            vv = json.loads(l)
            if sigs_mine(vv["signature"]):
                ck.violation(vv["signature"], "%s in\n%s" % (vv["what"], text), {"p": p, "text": text, "what": vv["what"]})
