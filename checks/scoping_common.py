"""shared by C13 and C14: mini-Lua programs (harness vh_analysis/src/scoping.rs, model EV.C13.Model)"""
import json
from vcheck import *

CORPUS13 = os.path.join(VERIF, "corpus", "C13")

TRUSTED13 = [
    "Coq 8.16.1 kernel (coqc); vm_compute used in Examples and in the correspondence evaluation; no native_compute",
    "axioms: none (Print Assumptions: Closed under the global context for every theorem)",
    "hand-written model coq/theories/C13/Model.v of LuaDeclarationTree (decl_tree.rs, scope.rs) and of the declaration walk "
    "(compilation/analyzer/decl/{mod,stats,exprs}.rs), tied by the correspondence check: for every generated program the model's "
    "printed text, its final declaration tree (kinds, ranges, declarations) and its reference-index entry for every NameExpr token "
    "are compared with the real analyzer's (harness vh_analysis/src/bin/c13.rs + coq/theories/C13/Corr.v)",
    "modelling assumptions: the arena of scopes with parent ids is represented by a zipper of open scopes (open scopes are the last "
    "children of their parents); callback traversals with early exit are lists in visiting order; offsets are unbounded N; the "
    "fragment's names are never `_`, `_G`, `_ENV`; the mini-Lua printer and the real parser agree on the token positions "
    "(checked per case: text, token positions and scope ranges are compared)",
    "reference resolver (A): written twice, in Gallina (Model.v, the theorem's right-hand side) and in Rust (scoping.rs Printer, "
    "the search oracle); both follow the Lua 5.4 manual sections 3.3.4, 3.3.5, 3.3.7, 3.4.11, 3.5",
]

NAMES = {"a": 0, "b": 1, "c": 2, "f": 3, "self": 4, "i": 5, "xs": 6}
KINDS = {0: "KNormal", 1: "KRepeat", 2: "KLocalOrAssign", 3: "KForRange", 4: "KFuncStat", 5: "KMethodStat", 6: "KClosure"}
DKINDS = {0: "DLocal", 1: "DSelf", 2: "DGlobal"}


def name_index(t):
    if t in NAMES:
        return NAMES[t]
    if t.startswith("v") and t[1:].isdigit():
        return int(t[1:])
    raise ValueError("name outside the alphabet: %r" % t)


def tree_to_coq(t):
    if "d" in t:
        return "(NDecl (mkDecl %d %d %s))" % (t["d"], name_index(t["n"]), DKINDS[t["k"]])
    if t["k"] not in KINDS:
        raise ValueError("unknown scope kind %r" % t["k"])
    return "(NScope %s %d %d %s)" % (KINDS[t["k"]], t["r"][0], t["r"][1], coq_list([tree_to_coq(c) for c in t["c"]]))


def case13_to_coq(c):
    uses = []
    for u in c["uses"]:
        x = name_index(u[1])
        if len(u) == 4:
            uses.append("(%d, %d, Some (mkDecl %d %d %s))" % (u[0], x, u[2], x, DKINDS[u[3]]))
        else:
            uses.append("(%d, %d, None)" % (u[0], x))
    return "{| c_prog := %s; c_text := %s; c_uses := %s; c_tree := %s |}" % (
        c["coq"], coq_text(c["text"]), coq_list(uses), tree_to_coq(c["tree"]))


def correspondence13(ck, binpath, n):
    rc, out, err = ck.run_bin(binpath, ["corr", "--seed", ck.seed, "--n", n, "--corpus", CORPUS13])
    if rc != 0:
        ck.tie_broken("harness c13 corr failed", err[-2000:])
        return
    cases = [json.loads(l) for l in jlines(out) if l.strip()]
    terms = []
    kept = []
    for c in cases:
        if c.get("errors", 0) or c.get("tree") is None:
            ck.tie_broken("the printed program does not parse without errors: %r" % c["text"], json.dumps(c["prog"])[:2000])
            continue
        try:
            terms.append(case13_to_coq(c))
            kept.append(c)
        except ValueError as ex:
            ck.tie_broken("observation outside the model's vocabulary (%s) for %r" % (ex, c["text"]), json.dumps(c)[:3000])
    failing = ck.coq_failing("corr13", terms, ["EV.C13.Model", "EV.C13.Corr"], per_shard=60)
    nuses = 0
    for c in kept:
        nuses += len(c["uses"])
        ck.count_case(("corr", c["text"]), nontrivial=(c["ndecls"] > 0 and c["nuses"] > 0))
    ck.cov["distribution"]["corr_programs"] = len(kept)
    ck.cov["distribution"]["corr_name_uses"] = nuses
    if failing is None:
        return
    for i in failing[:5]:
        c = kept[i]
        ck.tie_broken("model/implementation disagreement (text, declaration tree or reference index) on `%s`" % c["text"].strip(),
                      json.dumps({"prog": c["prog"], "text": c["text"], "uses": c["uses"], "tree": c["tree"]})[:6000])
    if kept:
        c = kept[min(len(kept) - 1, 25)]
        ck.sample({"kind": "correspondence case", "text": c["text"], "reference_index": c["uses"][:8]})


def search13(ck, binpath, n, extra_corpus=None):
    args = ["search", "--seed", ck.seed, "--n", n, "--corpus", CORPUS13]
    rc, out, err = ck.run_bin(binpath, args, timeout=3000)
    if rc != 0:
        ck.tie_broken("harness c13 search failed", err[-2000:])
        return
    for l in jlines(out):
        if not l.strip():
            continue
        v = json.loads(l)
        if "summary" in v:
            ck.cov["distribution"]["search"] = v["summary"]
            ck.add_measured(v["summary"]["cases"], v["summary"]["distinct_nontrivial"])
            continue
        if "harness_error" in v:
            ck.tie_broken("harness: " + v["harness_error"][:300], json.dumps(v)[:3000])
            continue
        ck.violation(v["signature"], v["what"], {"text": v["text"], "prog": v["prog"], "what": v["what"]})
        ck.sample({"kind": "violation", "text": v["text"], "what": v["what"]})


def replay13(ck, binpath, path):
    data = json.load(open(path))
    for v in data.get("violations", []):
        case = v.get("case", {})
        if "prog" not in case:
            continue
        rc, out, err = ck.run_bin(binpath, ["one", "--case-json", json.dumps({"prog": case["prog"]})])
        for l in jlines(out)[1:]:
            vv = json.loads(l)
            if "signature" in vv:
                ck.violation(vv["signature"], "%s in `%s`" % (vv["what"], vv["text"].strip()), {"text": vv["text"], "prog": vv["prog"], "what": vv["what"]})


# ------------------------------------------------------------------------------------------------ C14

CORPUS14 = os.path.join(VERIF, "corpus", "C14")

TRUSTED14 = TRUSTED13 + [
    "C14: hand-written model coq/theories/C14/Model.v of FileReference::decl_references, search_decl_references (local branch) and "
    "rename_decl_references (local branch), tied by the correspondence check (per local declaration: the cells of the real reference "
    "index in order, the edits of the real rename handler, and the edited text = the printed text of alpha); the ordinal resolver of "
    "the alpha-renaming theorem is proved equal to the positional resolver of C13 (ord_resolver_agrees)",
    "hook emmylua_ls::verif_references / verif_rename (cfg-gated re-exports of handlers::references::references and handlers::rename::rename)",
]


def case14_to_coq(c):
    decls = []
    for d in c["decls"]:
        edits = d["rename"]
        if edits is None:
            raise ValueError("rename returned nothing at the declaration at %d" % d["pos"])
        es = ["(%d, %d, %d)" % (e[0], e[1], name_index(e[2])) for e in edits]
        decls.append("{| o_pos := %d; o_name := %d; o_cells := %s; o_edits := %s |}" % (
            d["pos"], d["name"], coq_list(["(%d, %d)" % (x[0], x[1]) for x in d["cells"]]), coq_list(es)))
    return "{| c_prog := %s; c_text := %s; c_fresh := %d; c_decls := %s |}" % (
        c["coq"], coq_text(c["text"]), c["fresh"], coq_list(decls))


def correspondence14(ck, binpath, n):
    rc, out, err = ck.run_bin(binpath, ["corr", "--seed", ck.seed, "--n", n, "--corpus", CORPUS14])
    if rc != 0:
        ck.tie_broken("harness c14 corr failed", err[-2000:])
        return
    cases = [json.loads(l) for l in jlines(out) if l.strip()]
    terms = []
    kept = []
    for c in cases:
        if c.get("errors", 0):
            ck.tie_broken("the printed program does not parse without errors: %r" % c["text"], json.dumps(c["prog"])[:2000])
            continue
        try:
            terms.append(case14_to_coq(c))
            kept.append(c)
        except ValueError as ex:
            ck.tie_broken("observation outside the model's vocabulary (%s) for %r" % (ex, c["text"]), json.dumps(c)[:3000])
    failing = ck.coq_failing("corr14", terms, ["EV.C13.Model", "EV.C14.Model", "EV.C14.Corr"], per_shard=40)
    ndecl = 0
    for c in kept:
        ndecl += len(c["decls"])
        ck.count_case(("corr14", c["text"]), nontrivial=any(d["cells"] for d in c["decls"]))
    ck.cov["distribution"]["corr_programs"] = len(kept)
    ck.cov["distribution"]["corr_local_declarations"] = ndecl
    if failing is None:
        return
    for i in failing[:5]:
        c = kept[i]
        ck.tie_broken("model/implementation disagreement (reference cells, rename edits, edited text or ordinal resolver) on `%s`" % c["text"].strip(),
                      json.dumps({"prog": c["prog"], "text": c["text"], "decls": c["decls"]})[:6000])
    if kept:
        c = kept[min(len(kept) - 1, 12)]
        ck.sample({"kind": "correspondence case", "text": c["text"], "declarations": c["decls"][:4]})


def search14(ck, binpath, n):
    rc, out, err = ck.run_bin(binpath, ["search", "--seed", ck.seed, "--n", n, "--corpus", CORPUS14], timeout=3000)
    if rc != 0:
        ck.tie_broken("harness c14 search failed", err[-2000:])
        return
    for l in jlines(out):
        if not l.strip():
            continue
        v = json.loads(l)
        if "summary" in v:
            ck.cov["distribution"]["search"] = v["summary"]
            ck.add_measured(v["summary"]["request_points"], v["summary"]["distinct_nontrivial"])
            continue
        if "harness_error" in v:
            ck.tie_broken("harness: " + v["harness_error"][:300], json.dumps(v)[:3000])
            continue
        ck.violation(v["signature"], v["what"], {"text": v["text"], "prog": v["prog"], "what": v["what"]})
        ck.sample({"kind": "violation", "text": v["text"], "what": v["what"]})


def replay14(ck, binpath, path):
    data = json.load(open(path))
    for v in data.get("violations", []):
        case = v.get("case", {})
        if not case.get("prog"):
            continue
        rc, out, err = ck.run_bin(binpath, ["one", "--case-json", json.dumps({"prog": case["prog"]})])
        for l in jlines(out)[1:]:
            vv = json.loads(l)
            if "signature" in vv:
                ck.violation(vv["signature"], vv["what"], {"text": vv["text"], "prog": vv["prog"], "what": vv["what"]})
