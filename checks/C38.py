"""C38 — concurrent read-only queries are race-free.

What the proof covers: the auto-trait (Send/Sync) obligation over the struct/enum field type graph of EmmyLuaAnalysis,
regenerated from /repo on every run (lib/c38_tygraph.py -> coq/theories/Gen/C38_TyGraph.v), with a solver proved sound
for every graph.  What rustc checks: the compile-time assertions of hook H3 (crates/emmylua_code_analysis/src/verif_sync.rs),
compiled whenever the harness is built.  What is exploration: N threads querying one shared &EmmyLuaAnalysis versus the
sequential results.  A data race as such cannot be exhibited by a Gallina model."""
import json
import sys
from vcheck import *
import c38_tygraph

META = {
    "category": "proof",
    "text": "A data race as such cannot be exhibited by a Gallina model; this check says so plainly. The proof covers the TYPE-GRAPH "
            "obligation: a work-list solver for Rust's auto traits (struct/enum is Send/Sync iff all fields are, coinductively; Arc<T> "
            "needs T: Send + Sync; Mutex<T> needs T: Send; Cell/RefCell never Sync; Rc, raw pointers, rowan cursor nodes never; dyn "
            "Trait only with the bound; an `unsafe impl` is never trusted) is proved sound for every graph, and the obligation "
            "`analysis_components_sync` is re-proved by computation on the field type graph of EmmyLuaAnalysis regenerated from today's "
            "source — about the COMPONENTS, not about the struct that carries `unsafe impl Send/Sync`. rustc is the real judge of the "
            "static half: hook H3's compile-time `assert_sync::<Component>()` list is compiled with the harness and must cover every "
            "field of EmmyLuaAnalysis. The dynamic half (N threads running diagnose_file / semantic info / infer_expr on one shared "
            "analysis vs the sequential results, and the analysis answering the same afterwards) is exploration, not proof.",
    "note": "Trusted: Coq kernel; the lexical translator lib/c38_tygraph.py (regex/recursive-descent over struct/enum/type items; anything "
            "unparsable or unclassified becomes TUnknown and fails the obligation) and its REVIEWED table of external leaf types; rustc for "
            "the H3 assertions. Not covered: races through `static` items other than `static mut` (statics must be Sync, checked by rustc), "
            "races inside external crates' unsafe code, schedules not exercised by the dynamic run. Axioms: none.",
    "technique": "Coq proof (soundness of a coinductive work-list trait solver) + obligation by vm_compute over a table regenerated from "
                 "source + compile-time assertions judged by rustc + multi-threaded differential exploration",
}

THEOREMS = [("sync_ok_sound", "theorem"), ("send_ok_sound", "theorem"), ("components_sync_sound", "theorem"),
            ("analysis_components_sync", "table"), ("analysis_holds_no_unsafe_leaf", "theorem"),
            ("root_is_analysis", "example"), ("solver_example", "example")]

TRUSTED = [
    "Coq 8.16.1 kernel (coqc); vm_compute for the table obligation and the Examples",
    "axioms: none (Print Assumptions: Closed under the global context for every theorem)",
    "translator lib/c38_tygraph.py: lexical extraction of struct/enum/type items and `unsafe impl Send/Sync` from "
    "crates/emmylua_code_analysis/src and crates/emmylua_parser/src; type names resolved by last path segment; REVIEWED table of "
    "external leaf types (PRIM / TRANSPARENT / ARC / CELL / MUTEX / RWLOCK / BAD in that file); unknown -> obligation fails",
    "rustc: compiles hook H3 (commit cfbabdf) `assert_sync::<T: Sync + Send>` for LuaCompilation, LuaDiagnostic, Arc<Emmyrc>, DbIndex and "
    "every index — the authoritative check of the static half",
    "the dynamic run observes only the schedules the OS produced; it cannot prove absence of races",
]

GEN = os.path.join(COQ, "theories", "Gen", "C38_TyGraph.v")


def translate(ck):
    try:
        info = c38_tygraph.generate(REPO, GEN)
    except Exception as ex:  # anchor missing / unscannable file
        ck.tie_broken("translator lib/c38_tygraph.py could not regenerate the type graph of EmmyLuaAnalysis", repr(ex))
        return None
    ck.cov["table_obligations"].append({
        "name": "Gen/C38_TyGraph.v", "definitions": info["defs"], "files_scanned": info["files"], "digest": info["digest"],
        "unsafe_impls": ["%s: %s" % tuple(x) for x in info["unsafe_impls"]], "unknown_types": ["%s: %s" % tuple(u) for u in info["unknowns"]][:20],
        "external_leaf_types": info["externals"], "static_muts": info["static_muts"]})
    ck.cov["distribution"]["type_graph"] = {"definitions": info["defs"], "external_leaf_types": len(info["externals"]),
                                            "unknown": len(info["unknowns"]), "unsafe_impls": len(info["unsafe_impls"])}
    if info["static_muts"]:
        ck.tie_broken("`static mut` item(s) in the analysis crates: unsynchronised global state outside the type graph", ", ".join(info["static_muts"]))
    # H3 must exist and cover every non-primitive direct field type of EmmyLuaAnalysis
    asserted = c38_tygraph.h3_asserted_types(REPO)
    if asserted is None:
        ck.tie_broken("hook H3 (crates/emmylua_code_analysis/src/verif_sync.rs with assert_sync<T: Sync + Send>) is missing or not compiled in",
                      "the compile-time Send + Sync assertions are the rustc-judged half of the property")
    else:
        missing = [t for t in info["root_field_types"] if t not in asserted and t not in c38_tygraph.PRIM]
        missing += [t for t in info["dbindex_field_types"] if t not in asserted and t not in c38_tygraph.PRIM and "DbIndex" not in asserted]
        if missing:
            ck.tie_broken("hook H3 does not assert Send + Sync for field type(s) %s of EmmyLuaAnalysis" % ", ".join(missing),
                          "asserted: " + ", ".join(sorted(asserted)))
    return info


def explain_failure(ck, info):
    """when the obligation does not compute to true: name the offending type"""
    body = ("Eval vm_compute in (first_failure defs (N.to_nat 400000) (component_goals defs root_id) []).\n")
    rc, out = ck.coq_eval("c38_failure", body, ["EV.C38.Model", "EV.Gen.C38_TyGraph"], timeout=600)
    m = re.search(r"=\s*(Some.*?|None)\s*:\s*option goal", out, re.S)
    if not m:
        return out[-1500:]
    term = re.sub(r"\s+", " ", m.group(1))
    names = info["order"] if info else []

    def nm(mm):
        i = int(mm.group(1))
        return "TNamed %d[%s]" % (i, names[i] if i < len(names) else "?")
    mode = "Sync" if "(true," in term else "Send"
    raw = re.sub(r"^Some \((true|false), ?", "", term)[:-1].strip()
    owners = [n for n, fs in (info or {}).get("bodies", {}).items() if any(raw in f for f in fs)] if raw not in ("TPrim", "") else []
    term = re.sub(r"TNamed (\d+)", nm, term)
    reasons = {"TBad 1": "Rc/Weak", "TBad 2": "NonNull", "TBad 3": "rowan cursor node (SyntaxNode/SyntaxToken)", "TBad 4": "lock/borrow guard",
               "TBad 5": "raw pointer", "TCell": "Cell/RefCell/UnsafeCell", "TUnknown": "unparsable or unclassified type", "TDyn": "dyn Trait without the bound",
               "TNamed": "definition carrying an unsafe impl (unchecked assertion) or dangling"}
    why = next((v for k, v in reasons.items() if k in raw), "")
    return "first goal the solver cannot discharge: %s is not %s (%s); field of: %s" % (term, mode, why, ", ".join(owners[:6]) or "?")


def search(ck, binpath, n, threads, reps):
    rc, out, err = ck.run_bin(binpath, ["search", "--seed", ck.seed, "--n", n, "--threads", threads, "--reps", reps], timeout=2400)
    if rc != 0:
        # a crash of the whole process (abort, segfault) under concurrent readers is itself a finding
        ck.violation("crash-concurrent", "harness c38 exited with status %s under concurrent readers" % rc,
                     {"seed": ck.seed, "stderr": err[-2000:], "stdout": out[-500:]})
        return
    got = False
    for l in jlines(out):
        if not l.strip():
            continue
        v = json.loads(l)
        if "summary" in v:
            got = True
            s = v["summary"]
            ck.cov["distribution"]["dynamic"] = s
            ck.add_measured(s["queries"], s["distinct_nontrivial"])
            ck.sample({"kind": "dynamic run", "workloads": s["cases"], "files": s["files"], "threads": s["threads"], "reps": s["reps"],
                       "queries_compared": s["queries"], "mismatches": s["violations"]})
            continue
        ck.violation(v["signature"], v["what"], {k: v.get(k) for k in ("seed", "threads", "reps", "file", "use_std", "what")})
    if not got:
        ck.tie_broken("harness c38 search printed no summary", out[-1000:])


def corpus_seeds(ck, binpath):
    """corpus/C38/seeds.json: workloads that are always run first"""
    fp = os.path.join(VERIF, "corpus", "C38", "seeds.json")
    if not os.path.exists(fp):
        return
    for seed in json.load(open(fp)).get("seeds", []):
        rc, out, err = ck.run_bin(binpath, ["one", "--seed", seed, "--threads", 8, "--reps", 2], timeout=900)
        if rc != 0:
            ck.violation("crash-concurrent", "harness c38 exited with status %s on corpus seed %s" % (rc, seed), {"seed": seed, "stderr": err[-1500:]})
            continue
        for l in jlines(out):
            try:
                v = json.loads(l)
            except ValueError:
                continue
            if "signature" in v:
                ck.violation(v["signature"], v["what"], {k: v.get(k) for k in ("seed", "threads", "reps", "file", "what")})
            elif "summary" in v:
                ck.add_measured(v["summary"]["queries"], 1)


def replay(ck, binpath, path):
    data = json.load(open(path))
    for v in data.get("violations", []):
        c = v["case"]
        rc, out, err = ck.run_bin(binpath, ["one", "--seed", c.get("seed", 1), "--threads", c.get("threads") or 8, "--reps", 20,
                                            "--std", 1 if c.get("use_std") else 0], timeout=1200)
        for l in jlines(out):
            try:
                vv = json.loads(l)
            except ValueError:
                continue
            if "signature" in vv:
                ck.violation(vv["signature"], vv["what"], {k: vv.get(k) for k in ("seed", "threads", "reps", "file", "what")})


def main(argv):
    ck = Check("C38", argv)
    info = translate(ck)
    # building the harness compiles emmylua_code_analysis with the cfg on, i.e. the H3 assertions: rustc is the judge
    bins = ck.build_harness("vh_analysis", ["c38"])
    if bins is None and ck.broken:
        d = ck.broken[-1]["detail"]
        if "cannot be shared between threads safely" in d or "cannot be sent between threads safely" in d:
            m = re.search(r"error\[E0277\]: (.*?)\n(.*?)(?=\nerror|\Z)", d, re.S)
            ck.broken[-1]["what"] = ("rustc rejects a compile-time Send + Sync assertion of hook H3: a component of EmmyLuaAnalysis is "
                                     "not thread-safe — " + (m.group(1) if m else ""))
    if ck.replay and bins:
        replay(ck, bins["c38"], ck.replay)
        ck.finish(trusted_base=TRUSTED)
    ok = False
    if info is not None:
        ok = ck.coq_make(["theories/C38/Props.vo"])
        if ok:
            ck.coq_gates(["C38"], THEOREMS, "EV.C38.Props")
            hits = section_aware_forbidden(GEN)
            if hits:
                ck.proof_broken("forbidden vernacular in the generated table", json.dumps(hits[:5]))
        else:
            # is it the table obligation?  name the type
            if ck.coq_make(["theories/Gen/C38_TyGraph.vo", "theories/C38/Proofs.vo"]):
                ck.broken = [b for b in ck.broken if "C38_TyGraph.vo theories/C38/Proofs.vo" not in b["what"]]
                why = explain_failure(ck, info)
                ck.broken[-1]["what"] = ("obligation analysis_components_sync fails on the regenerated type graph of EmmyLuaAnalysis: " + why)[:600]
            ck.cov["obligations"] += len(THEOREMS)
    if bins:
        if ck.broken:
            ck.deep = True
        corpus_seeds(ck, bins["c38"])
        search(ck, bins["c38"], ck.scale(4, 24), ck.scale(8, 16), ck.scale(3, 8))
    ck.finish(
        trusted_base=TRUSTED,
        rule="static: one table (the type graph reachable from EmmyLuaAnalysis: every struct/enum with all field types, generics instantiated "
             "by the solver) regenerated per run; dynamic: generated workspaces of 4-12 Lua modules (classes with inheritance, cross-module "
             "requires, generics, flow narrowing, code that triggers diagnostics; every third workload with the std library loaded) x T reader "
             "threads x R repetitions, each thread walking the files in its own random order and computing diagnose_file + get_semantic_info "
             "of every name token + infer_expr of every expression; every result compared with the sequential one, and the sequential "
             "results recomputed afterwards; evaluations = per-file query results compared, distinct = distinct workloads",
        assumptions=["a data race is undefined behaviour that need not show in results: the dynamic run is exploration only",
                     "external crates' types behave as their documented Send/Sync impls say (reviewed table in lib/c38_tygraph.py)",
                     "type names are resolved lexically by last path segment; two in-crate types with one name are merged conservatively"])
