from flow_common import *

META = {
    "category": "proof",
    "text": 'Theorems (Coq, all programs of the fragment, all executions): narrowing_sound — whenever execution reaches a probe with value v, '
            'the type the analyzer infers there admits v, in particular contains its Lua type; unreachable_never_runs — a point typed never is '
            'never executed; reach_complete — the 2^k valuations of the opaque conditions cover every execution. The theorems are about a Gallina '
            'transcription of the LuaType narrowing operations and of the three-mode flow walk (get_type_at_flow over the graph of '
            'bind_analyze), tied to the code by an exact correspondence on generated programs (same printed Lua text on both sides; equal value '
            'sets at every probe, and the exact LuaType as an extra), and the property itself is searched on the real analyzer: the exact '
            'reachable tag set over all oracle valuations must be contained in the inferred type.',
    "note": 'Fragment: locals declared up-front with literal initialisers (nil/boolean/number/string/table/function), literal reassignment, '
            'if/elseif/else, conditions from type(x)=="T", x==nil, x~=nil and their flipped forms ("T"==type(x), nil==x, nil~=x), x, not, and, or, opaque '
            'globals, `assert(c)`, and early exits `if c then .. return end` / `if c then .. error(..) end` (a failed assert, error and return end the '
            'chunk). Not covered: assignments from expressions or other variables, nested scopes/shadowing, `~=` with type(), field narrowing. Trusted: Coq kernel; the hand model (forward '
            'reformulation of the backward walk), validated by the correspondence, not proved equal to the Rust; no Lua VM is used (the '
            'semantics is the Gallina interpreter). Axioms: none. One defect found and fixed (d91459f: empty else block).',
    "technique": "Coq proof (simulation between a big-step semantics and a per-variable abstract interpreter transcribed from the Rust) + exact "
                 "model-vs-implementation correspondence on generated programs + exhaustive-valuation oracle search",
}

THEOREMS = [("narrowing_sound", "theorem"), ("unreachable_never_runs", "theorem"), ("reach_complete", "theorem"),
            ("narrowing_example", "example")]


def mine(sig):
    return True


def main(argv):
    ck = Check("C15", argv)
    bins = ck.build_harness("vh_analysis", ["c15"])
    if ck.replay and bins:
        replay(ck, bins["c15"], ck.replay, mine)
        ck.finish(trusted_base=TRUSTED)
    ok = ck.coq_make(["theories/C15/Props.vo", "theories/C15/Corr.vo"])
    if ok:
        ck.coq_gates(["C15"], THEOREMS, "EV.C15.Props")
    if bins:
        if ok or os.path.exists(os.path.join(COQ, "theories/C15/Corr.vo")):
            correspondence(ck, bins["c15"], ck.scale(1000, 20000), loops=False)
        if ck.broken:
            ck.deep = True
        search(ck, bins["c15"], ck.scale(12000, 300000), False, mine)
    ck.finish(
        trusted_base=TRUSTED,
        rule="programs of the fragment from a seeded structural generator (1-3 locals, <= 14 statements, nesting <= 3, conditions of depth <= 2, "
             "<= 6 opaque conditions), hand-written witnesses first; per program every probe is compared; the search enumerates all 2^k oracle "
             "valuations; non-trivial = the program contains a conditional and a probe; distinct by program text",
        assumptions=["correspondence and search are sampled (they validate the model and look for replays; the theorems carry the all-programs claim)",
                     "unknown/any inferred types are treated as admitting every value by the search oracle"])
