"""Translator for C25: regenerates coq/theories/Gen/C25_Handlers.v from /repo on every run.

For every function under crates/emmylua_ls/src/handlers (test code excluded) it records HOW an offset handed to
rowan's `token_at_offset` (or to a text slice through `to_rowan_range`) is obtained:

  ViaGetOffset   `let X = …document.get_offset(P.line as usize, P.character as usize)?` — the client position is
                 passed unchanged to LuaDocument::get_offset (C22's theorems apply), and whether an
                 `if X > …end() { return None; }` guard stands between the binding and `token_at_offset(X)`;
  ViaRowanRange  `document.to_rowan_range(range)?`;
  TreeInternal   the offset is read from the syntax tree / index (reviewed allow-list below; a new site is NOT
                 silently accepted);
  Unknown        anything else — fails the Coq obligation `all_sites_ok`.

It also reads the request dispatch table and classifies every request type as position / range / none with a
reviewed table; an unclassified request type is a broken tie.
"""
import os
import re

HANDLERS = "crates/emmylua_ls/src/handlers"

# (file, fn, argument text) of token_at_offset calls whose offset does not come from the client
INTERNAL = {
    ("definition/goto_function.rs", "extract_semantic_decl_from_signature", "signature_id.get_position()"): "signature position stored in the index",
    ("inlay_hint/build_inlay_hint.rs", "get_call_signature_param_location", "sig_position"): "signature position stored in the index",
    ("completion/providers/postfix_provider.rs", "get_postfix_target", "left_pos.into()"): "start of the trigger token minus one",
    ("references/reference_searcher.rs", "enqueue_value_alias_references", "position"): "start of a reference range stored in the index",
}
# client-echoed data (completionItem/resolve `data.trigger_offset`): accepted only while it is guarded
GUARDED_DATA = {
    ("completion/resolve_completion.rs", "get_completion_trigger_token", "offset"),
}
# `.line as usize` / `.character as usize` outside get_offset arguments that are on the OUTPUT side
# (positions the server computed itself with to_lsp_range)
OUTPUT_SIDE = {
    ("fold_range/expr.rs", "build_table_expr_fold_range"),
    ("fold_range/expr.rs", "build_closure_expr_fold_range"),
    ("fold_range/expr.rs", "build_string_fold_range"),
}

REQUEST_KIND = {
    # position
    "HoverRequest": "position", "SelectionRangeRequest": "position", "Completion": "position", "GotoDefinition": "position",
    "GotoImplementation": "position", "References": "position", "Rename": "position", "PrepareRenameRequest": "position",
    "SignatureHelpRequest": "position", "DocumentHighlightRequest": "position", "OnTypeFormatting": "position",
    "CallHierarchyPrepare": "position",
    # range
    "ColorPresentationRequest": "range", "InlayHintRequest": "range", "CodeActionRequest": "range", "InlineValueRequest": "range",
    "RangeFormatting": "range",
    # no client position
    "DocumentSymbolRequest": "none", "FoldingRangeRequest": "none", "DocumentColor": "none", "DocumentLinkRequest": "none",
    "DocumentLinkResolve": "none", "EmmyAnnotatorRequest": "none", "EmmyGutterRequest": "none", "EmmyGutterDetailRequest": "none",
    "EmmySyntaxTreeRequest": "none", "ResolveCompletionItem": "none", "InlayHintResolveRequest": "none", "CodeLensRequest": "none",
    "CodeLensResolve": "none", "SemanticTokensFullRequest": "none", "ExecuteCommand": "none", "WorkspaceSymbolRequest": "none",
    "Formatting": "none", "CallHierarchyIncomingCalls": "none", "CallHierarchyOutgoingCalls": "none",
    "DocumentDiagnosticRequest": "none", "WorkspaceDiagnosticRequest": "none",
}
METHOD_OF = {
    "HoverRequest": "textDocument/hover", "SelectionRangeRequest": "textDocument/selectionRange", "Completion": "textDocument/completion",
    "GotoDefinition": "textDocument/definition", "GotoImplementation": "textDocument/implementation", "References": "textDocument/references",
    "Rename": "textDocument/rename", "PrepareRenameRequest": "textDocument/prepareRename", "SignatureHelpRequest": "textDocument/signatureHelp",
    "DocumentHighlightRequest": "textDocument/documentHighlight", "OnTypeFormatting": "textDocument/onTypeFormatting",
    "CallHierarchyPrepare": "textDocument/prepareCallHierarchy", "ColorPresentationRequest": "textDocument/colorPresentation",
    "InlayHintRequest": "textDocument/inlayHint", "CodeActionRequest": "textDocument/codeAction", "InlineValueRequest": "textDocument/inlineValue",
    "RangeFormatting": "textDocument/rangeFormatting",
}


class AnchorMissing(Exception):
    pass


def blank_noncode(src):
    """replace comments, string and char literals by blanks of the same length (newlines kept)"""
    out = list(src)
    i, n = 0, len(src)

    def blank(a, b):
        for k in range(a, b):
            if out[k] != "\n":
                out[k] = " "

    while i < n:
        c = src[i]
        if src.startswith("//", i):
            j = src.find("\n", i)
            j = n if j < 0 else j
            blank(i, j)
            i = j
        elif src.startswith("/*", i):
            depth, j = 1, i + 2
            while j < n and depth:
                if src.startswith("/*", j):
                    depth += 1
                    j += 2
                elif src.startswith("*/", j):
                    depth -= 1
                    j += 2
                else:
                    j += 1
            blank(i, j)
            i = j
        elif c == "r" and re.match(r'r#*"', src[i:i + 12]) and (i == 0 or not (src[i - 1].isalnum() or src[i - 1] == "_")):
            m = re.match(r'r(#*)"', src[i:])
            close = '"' + m.group(1)
            j = src.find(close, i + len(m.group(0)))
            j = n if j < 0 else j + len(close)
            blank(i, j)
            i = j
        elif c == '"':
            j = i + 1
            while j < n and src[j] != '"':
                j += 2 if src[j] == "\\" else 1
            blank(i + 1, min(j, n))
            i = j + 1
        elif c == "'":
            m = re.match(r"'(\\.[^']*|[^'\\])'", src[i:])
            if m:
                blank(i + 1, i + len(m.group(0)) - 1)
                i += len(m.group(0))
            else:
                i += 1  # lifetime
        else:
            i += 1
    return "".join(out)


def strip_verif_hooks(src):
    """drop items under #[cfg(emmyluals_emmylua_analyzer_rust_verif)] (harness hooks are not server code)"""
    out = src
    while True:
        m = re.search(r"#\[cfg\(emmyluals_emmylua_analyzer_rust_verif\)\]\s*", out)
        if not m:
            return out
        rest = out[m.end():]
        semi = rest.find(";")
        brace = rest.find("{")
        is_use = re.match(r"(pub(\([a-z]+\))?\s+)?use\b", rest) is not None
        if brace >= 0 and not is_use:
            e = match_close(rest, brace, "{", "}")
            end = m.end() + (e + 1 if e >= 0 else len(rest))
        else:
            end = m.end() + (semi + 1 if semi >= 0 else len(rest))
        out = out[:m.start()] + " " * (end - m.start() - out[m.start():end].count("\n")) + "\n" * out[m.start():end].count("\n") + out[end:]


def strip_tests(src):
    m = re.search(r"^#\[cfg\(test\)\]\s*\n\s*(pub\s+)?mod\s+\w+", src, re.M)
    return src[:m.start()] if m else src


def match_close(code, i, open_c, close_c):
    depth = 0
    n = len(code)
    while i < n:
        if code[i] == open_c:
            depth += 1
        elif code[i] == close_c:
            depth -= 1
            if depth == 0:
                return i
        i += 1
    return -1


def functions(code):
    """yield (name, body_start, body_end) for every fn with a body"""
    for m in re.finditer(r"\bfn\s+(\w+)\s*(<[^>{}]*>)?\s*\(", code):
        j = match_close(code, m.end() - 1, "(", ")")
        if j < 0:
            continue
        k = j
        # skip return type / where clause up to the body or ';'
        while k < len(code) and code[k] not in "{;":
            k += 1
        if k >= len(code) or code[k] == ";":
            continue
        e = match_close(code, k, "{", "}")
        if e < 0:
            continue
        yield m.group(1), k, e


def innermost_fn(fns, pos):
    best = None
    for name, a, b in fns:
        if a <= pos <= b and (best is None or a >= best[1]):
            best = (name, a, b)
    return best


GUARD_RE = r"if\s+%s\s*>=?\s*[\w.()&]*?(text_range|get_range)\(\)\s*\.end\(\)\s*\{\s*return\b"
GETOFF_ARGS = re.compile(r"^\s*(\w+(?:\.\w+)*)\.line\s+as\s+usize\s*,\s*(\w+(?:\.\w+)*)\.character\s+as\s+usize\s*,?\s*$", re.S)


def find_binding(body, var, before):
    """the last `let var = …;` before offset `before`; returns (start, end_of_statement, init) or None"""
    best = None
    for m in re.finditer(r"\blet\s+(mut\s+)?%s\s*(:\s*[\w:<>]+\s*)?=" % re.escape(var), body[:before]):
        # statement end: ';' at depth 0
        i = m.end()
        depth = 0
        while i < len(body):
            ch = body[i]
            if ch in "({[":
                depth += 1
            elif ch in ")}]":
                depth -= 1
            elif ch == ";" and depth == 0:
                break
            i += 1
        best = (m.start(), i, body[m.end():i])
    return best


def scan(repo):
    root = os.path.join(repo, HANDLERS)
    if not os.path.isdir(root):
        raise AnchorMissing(HANDLERS)
    sites = []
    seen_internal = set()
    for dp, dns, fns_ in os.walk(root):
        dns[:] = sorted(d for d in dns if d not in ("test", "test_lib"))
        for fn_ in sorted(fns_):
            if not fn_.endswith(".rs"):
                continue
            path = os.path.join(dp, fn_)
            rel = os.path.relpath(path, root)
            code = blank_noncode(strip_verif_hooks(strip_tests(open(path, encoding="utf8").read())))
            if "token_at_offset" not in code and "get_offset" not in code and "to_rowan_range" not in code and " as usize" not in code:
                continue
            fl = list(functions(code))
            per_fn = {}
            # ---- token_at_offset call sites
            for m in re.finditer(r"\.token_at_offset\s*\(", code):
                f = innermost_fn(fl, m.start())
                if not f:
                    sites.append((rel, "?", "Unknown", True, False, "token_at_offset outside a function"))
                    continue
                name, a, b = f
                body = code[a:b]
                close = match_close(code, m.end() - 1, "(", ")")
                arg = " ".join(code[m.end():close].split())
                var = re.sub(r"\.into\(\)$", "", arg)
                src, guard, note = "Unknown", False, "argument %s" % arg
                rel_call = m.start() - a
                if re.fullmatch(r"\w+", var):
                    bnd = find_binding(body, var, rel_call)
                    if bnd:
                        _, bend, init = bnd
                        between = body[bend:rel_call]
                        guard = re.search(GUARD_RE % re.escape(var), between) is not None
                        calls = list(re.finditer(r"\.get_offset\s*\(", init))
                        if len(calls) == 1:
                            c = calls[0]
                            ce = match_close(init, c.end() - 1, "(", ")")
                            am = GETOFF_ARGS.match(init[c.end():ce])
                            if am and am.group(1) == am.group(2):
                                src, note = "ViaGetOffset", "%s = get_offset(%s.line, %s.character)" % (var, am.group(1), am.group(1))
                            else:
                                note = "get_offset called with transformed coordinates"
                    elif (rel, name, arg) not in INTERNAL and (rel, name, arg) not in GUARDED_DATA:
                        note = "no binding of %s through get_offset" % var
                    if (rel, name, arg) in GUARDED_DATA and src == "Unknown":
                        # parameter / echoed data: the guard must stand between the start of the fn and the call
                        guard = re.search(GUARD_RE % re.escape(var), body[:rel_call]) is not None
                        if guard:
                            src, note = "TreeInternal", "client-echoed resolve data, guarded"
                            seen_internal.add((rel, name, arg))
                if src == "Unknown" and (rel, name, arg) in INTERNAL:
                    src, note = "TreeInternal", INTERNAL[(rel, name, arg)]
                    seen_internal.add((rel, name, arg))
                sites.append((rel, name, src, True, guard, note))
                per_fn.setdefault(name, []).append("lookup")
            # ---- get_offset without a token lookup in the same function; all get_offset argument shapes
            for m in re.finditer(r"\.get_offset\s*\(", code):
                f = innermost_fn(fl, m.start())
                name = f[0] if f else "?"
                close = match_close(code, m.end() - 1, "(", ")")
                am = GETOFF_ARGS.match(code[m.end():close])
                if not (am and am.group(1) == am.group(2)):
                    sites.append((rel, name, "Unknown", False, False, "get_offset called with transformed coordinates: %s" % " ".join(code[m.end():close].split())))
                    continue
                if "lookup" not in per_fn.get(name, []):
                    sites.append((rel, name, "ViaGetOffset", False, False, "get_offset(%s) without token lookup" % am.group(1)))
            # ---- to_rowan_range
            for m in re.finditer(r"\.to_rowan_range\s*\(", code):
                f = innermost_fn(fl, m.start())
                sites.append((rel, f[0] if f else "?", "ViaRowanRange", False, False, "to_rowan_range"))
            # ---- any other input-side use of a position's coordinates
            for m in re.finditer(r"\.(line|character)\s+as\s+usize", code):
                # inside the argument list of get_offset?
                back = code.rfind("get_offset", 0, m.start())
                inside = False
                if back >= 0:
                    op = code.find("(", back)
                    cl = match_close(code, op, "(", ")") if op >= 0 else -1
                    inside = op >= 0 and op < m.start() < cl
                if inside:
                    continue
                f = innermost_fn(fl, m.start())
                name = f[0] if f else "?"
                if (rel, name) in OUTPUT_SIDE:
                    continue
                sites.append((rel, name, "Unknown", False, False, "position coordinate used outside get_offset"))
    missing = (set(INTERNAL) | GUARDED_DATA) - seen_internal
    # an allow-list entry whose site disappeared is only stale, not unsafe; keep the run going but report it
    sites = sorted(set(sites))
    if not any(s[2] == "ViaGetOffset" and s[3] for s in sites):
        raise AnchorMissing("no get_offset -> token_at_offset site found under %s" % HANDLERS)
    return sites, sorted(missing)


# TextRange::new(A, B) asserts A <= B.  Sites whose order is not evident from the syntax were reviewed by hand; the
# review is pinned to a hash of the enclosing function (blanked comments/strings, whitespace removed): any edit of
# that function makes the site Unknown again until it is re-reviewed.
REVIEWED_RANGES = {
    ("semantic_token/language_injector.rs", "divide_into_quote_and_code_block", "end_quote_start", "range_start + TextSize::from(text.len() as u32)"):
        "end_quote_start = range_start + (rfind position | len - 1) <= range_start + len",
    ("completion/providers/mod.rs", "get_text_edit_range_in_string", "start_offset.into()", "end_offset.into()"):
        "text is not empty; start+1 only for an opening quote; end-1 only while end > start (fix ad11241)",
    ("completion/providers/array_append_provider.rs", "complete_provider", "builder.position_offset", "edit_end"):
        "edit_end is the end of a token after the trigger token, or position_offset itself",
    ("completion/providers/postfix_provider.rs", "get_postfix_target", "text_range.start()", "(trigger_pos + 1).into()"):
        "the expression left of the trigger token starts before the trigger position",
    ("document_color/build_color.rs", "try_build_color_information", "source_text_range.start() + TextSize::new(start as u32)", "source_text_range.start() + TextSize::new(j as u32)"):
        "start is i or i-1 and i < j",
    ("document_formatting/format_diff.rs", "generate_text_edits", "start_range.start()", "end_range.end()"):
        "first_line <= last_line of one run of deleted lines",
}
REVIEWED_HASHES = {}   # filled from checks/ls_position_sites.reviewed.json: "file::fn" -> sha1


def fn_hash(body):
    import hashlib
    return hashlib.sha1(re.sub(r"\s+", "", body).encode("utf8")).hexdigest()[:16]


def split_args(argtext):
    depth, cur, out = 0, "", []
    for ch in argtext:
        if ch in "([{":
            depth += 1
        elif ch in ")]}":
            depth -= 1
        if ch == "," and depth == 0:
            out.append(cur)
            cur = ""
        else:
            cur += ch
    if cur.strip():
        out.append(cur)
    return [" ".join(x.split()) for x in out]


def classify_range_site(rel, name, a, b, body, rel_pos, reviewed_hashes):
    """returns (kind, note)"""
    ea, eb = re.escape(a), re.escape(b)
    m = re.fullmatch(re.escape(a) + r" \+ TextSize::(from|new)\(.*\)", b)
    if m:
        return "PlusOffset", "end = start + size"
    ma = re.fullmatch(r"(.+?)\.start\(\)( \+ .+)?", a)
    mb = re.fullmatch(r"(.+?)\.end\(\)( \+ .+)?", b)
    if ma and mb and ma.group(1) == mb.group(1) and (ma.group(2) or "") == (mb.group(2) or ""):
        return ("ShiftedRange" if ma.group(2) else "SameRange"), "both ends of the range %s%s" % (ma.group(1), ma.group(2) or "")
    before = body[:rel_pos]
    # `if A > B { return …` before the site
    if re.search(r"if\s+" + ea + r"\s*>\s*" + eb + r"\s*\{\s*return\b", before):
        return "GuardedOrder", "preceded by `if %s > %s { return }`" % (a, b)
    # the site stands inside `if B > A {` / `if A < B {`
    for g in list(re.finditer(r"if\s+" + eb + r"\s*>\s*" + ea + r"\s*\{", before)) + list(re.finditer(r"if\s+" + ea + r"\s*<\s*" + eb + r"\s*\{", before)):
        close = match_close(body, g.end() - 1, "{", "}")
        if close > rel_pos:
            return "GuardedOrder", "inside `%s`" % " ".join(g.group(0).split())
    key = (rel, name, a, b)
    if key in REVIEWED_RANGES:
        h = fn_hash(body)
        want = reviewed_hashes.get("%s::%s" % (rel, name))
        if want == h:
            return "Reviewed", REVIEWED_RANGES[key]
        return "UnknownOrder", "reviewed site, but %s changed since the review (hash %s, reviewed %s)" % (name, h, want)
    return "UnknownOrder", "TextRange::new(%s, %s): order not evident" % (a, b)


def scan_ranges(repo, reviewed_hashes):
    root = os.path.join(repo, HANDLERS)
    out = []
    hashes = {}
    for dp, dns, fns_ in os.walk(root):
        dns[:] = sorted(d for d in dns if d not in ("test", "test_lib"))
        for fn_ in sorted(fns_):
            if not fn_.endswith(".rs"):
                continue
            path = os.path.join(dp, fn_)
            rel = os.path.relpath(path, root)
            raw = open(path, encoding="utf8").read()
            if "TextRange::new" not in raw:
                continue
            code = blank_noncode(strip_verif_hooks(strip_tests(raw)))
            fl = list(functions(code))
            for m in re.finditer(r"TextRange::new\s*\(", code):
                f = innermost_fn(fl, m.start())
                close = match_close(code, m.end() - 1, "(", ")")
                args = split_args(code[m.end():close])
                if not f or len(args) != 2:
                    out.append((rel, f[0] if f else "?", "UnknownOrder", "unparsable TextRange::new call"))
                    continue
                name, a0, b0 = f
                body = code[a0:b0]
                kind, note = classify_range_site(rel, name, args[0], args[1], body, m.start() - a0, reviewed_hashes)
                hashes["%s::%s" % (rel, name)] = fn_hash(body)
                out.append((rel, name, kind, "%s — TextRange::new(%s, %s)" % (note, args[0], args[1])))
    return sorted(set(out)), hashes


def load_reviewed_hashes():
    p = os.path.join(os.path.dirname(os.path.abspath(__file__)), "ls_position_sites.reviewed.json")
    if os.path.exists(p):
        import json
        return json.load(open(p))
    return {}


def dispatch(repo):
    p = os.path.join(repo, HANDLERS, "request_handler.rs")
    if not os.path.exists(p):
        raise AnchorMissing(p)
    src = blank_noncode(open(p, encoding="utf8").read())
    m = re.search(r"dispatch_request!\s*\(\s*req\s*,\s*server_context\s*,\s*\{(.*?)\}\s*\)\s*;", src, re.S)
    if not m:
        raise AnchorMissing("dispatch_request!(req, server_context, {…}) in request_handler.rs")
    rows = re.findall(r"(\w+)\s*=>\s*(\w+)\s*,", m.group(1))
    if len(rows) < 10:
        raise AnchorMissing("dispatch_request! table has only %d rows" % len(rows))
    return rows


def coq_str(s):
    return '"%s"' % s.replace('"', "'")


def generate(repo, out_path):
    """returns (sites, dispatch rows with kind, stale allow-list entries, unclassified request types)"""
    sites, stale = scan(repo)
    rows = dispatch(repo)
    unknown_types = [t for t, _ in rows if t not in REQUEST_KIND]
    lines = ["(** GENERATED by checks/ls_position_sites.py from /repo — do not edit; regenerated on every run. *)",
             "From EV Require Import C25.Model.", "From Coq Require Import List String.", "Import ListNotations.",
             "Local Open Scope string_scope.", "",
             "(* crates/emmylua_ls/src/handlers/**: every site that consumes a client position or looks a token up by offset *)",
             "Definition sites : list site := ["]
    body = []
    for rel, fn, src, lookup, guard, note in sites:
        body.append("  (* %s *)\n  {| s_file := %s; s_fn := %s; s_source := %s; s_lookup := %s; s_guard := %s |}" % (
            note.replace("*)", "* )"), coq_str(rel), coq_str(fn), src, "true" if lookup else "false", "true" if guard else "false"))
    lines.append(";\n".join(body))
    lines.append("].")
    lines.append("")
    rsites, _ = scan_ranges(repo, load_reviewed_hashes())
    lines.append("(* crates/emmylua_ls/src/handlers/**: every TextRange::new(start, end) (asserts start <= end) and why it is ordered *)")
    lines.append("Definition range_sites : list range_site := [")
    lines.append(";\n".join("  (* %s *)\n  {| r_file := %s; r_fn := %s; r_kind := %s |}" % (note.replace("*)", "* )").replace("(*", "( *"), coq_str(rel), coq_str(fn), kind)
                             for rel, fn, kind, note in rsites))
    lines.append("].")
    lines.append("")
    lines.append("(* request_handler.rs dispatch_request!{…}: (request type, handler, kind of client position it carries) *)")
    lines.append("Definition position_requests : list (string * (string * string)) := [")
    lines.append(";\n".join("  (%s, (%s, %s))" % (coq_str(t), coq_str(h), coq_str(REQUEST_KIND.get(t, "UNCLASSIFIED"))) for t, h in rows))
    lines.append("].")
    txt = "\n".join(lines) + "\n"
    old = open(out_path, encoding="utf8").read() if os.path.exists(out_path) else None
    if old != txt:
        os.makedirs(os.path.dirname(out_path), exist_ok=True)
        with open(out_path, "w", encoding="utf8") as fh:
            fh.write(txt)
    generate.range_sites = rsites
    return sites, [(t, h, REQUEST_KIND.get(t, "UNCLASSIFIED")) for t, h in rows], stale, unknown_types


if __name__ == "__main__":
    import sys
    repo = sys.argv[1] if len(sys.argv) > 1 else "/repo"
    s, r, stale, unk = generate(repo, os.path.join(os.path.dirname(os.path.dirname(os.path.abspath(__file__))), "coq/theories/Gen/C25_Handlers.v"))
    for x in s:
        print(x)
    print("stale allow-list:", stale, "unclassified:", unk)
    rs, hashes = scan_ranges(repo, load_reviewed_hashes())
    for x in rs:
        print(x)
    if "--write-reviewed" in sys.argv:
        import json
        keep = {"%s::%s" % (k[0], k[1]): hashes.get("%s::%s" % (k[0], k[1])) for k in REVIEWED_RANGES}
        json.dump(keep, open(os.path.join(os.path.dirname(os.path.abspath(__file__)), "ls_position_sites.reviewed.json"), "w"), indent=1)
        print("reviewed hashes written:", keep)
