import json
from vcheck import *
import ls_position_sites as sites_tr

META = {
    "category": "proof",
    "text": "PROVED (Coq, all texts and all (line, character)): offset safety of the common prologue of every position-taking LSP handler — LuaDocument::get_offset (C22 model, after its fix) never panics and returns nothing (missing line) or an in-document character-boundary offset, so rowan's token_at_offset range assertion and string slicing cannot fail; with the `offset > root end` guard this holds for ANY extent of the syntax tree, without it only for a lossless tree (refutation witness: the NUL document); to_rowan_range yields an ordered in-document range or nothing. A translator regenerates on every run the table of all sites under emmylua_ls/src/handlers that consume a client position or look a token up by offset, and the theorem all_sites_safe is re-checked against today's table (any site that does not go through get_offset / to_rowan_range, or an unguarded lookup, breaks it). The same translator lists every TextRange::new(start, end) built inside the handlers (also in range-taking and uri-only requests: semantic tokens, colors, completion edits, format diff) with the reason its order holds — end = start + size, both ends of one range, an explicit order guard (proved safe for all values: classified_range_site_never_crashes, all_range_sites_safe) or a hand review pinned to a hash of the enclosing function; a site it cannot classify, or a reviewed function that changed, is UnknownOrder and fails the obligation. EXPLORATION (not proof): what the handler bodies do after the prologue — searched on the real in-process server: every position/range-taking request x documents (valid/invalid, CRLF, emoji, empty, unterminated) x positions (token boundaries, inside surrogate pairs, past line ends, lines/characters up to u32::MAX, reversed ranges) must get a response and the server must keep answering.",
    "note": "Trusted: Coq kernel; the C22 hand model of LineIndex (tied by C22's correspondence); the text-based translator checks/ls_position_sites.py (reviewed allow-list for tree-internal offsets; fails loudly on unknown shapes); rowan's documented assertion in token_at_offset; handler bodies beyond the prologue are covered by search only. Axioms: none.",
    "technique": "Coq proof on the C22 line-index model + regenerated site table with a decidable obligation + dynamic tie through selectionRange answers of the real server + request fuzzing of the real in-process server (panic hook + response accounting)",
}

THEOREMS = [("offset_always_valid", "theorem"), ("guarded_entry_never_crashes", "theorem"),
            ("unguarded_entry_safe_on_lossless_tree", "theorem"), ("unguarded_lossy_refuted", "refutation"),
            ("range_entry_never_crashes", "theorem"), ("all_sites_ok", "table"), ("all_sites_safe", "theorem"),
            ("classified_range_site_never_crashes", "theorem"), ("unknown_range_site_refuted", "refutation"),
            ("all_range_sites_ok", "table"), ("all_range_sites_safe", "theorem"),
            ("entry_example", "example")]

TRUSTED = [
    "Coq 8.16.1 kernel (coqc); vm_compute in Examples, in the table obligation all_sites_ok (finite table) and in the correspondence evaluation",
    "axioms: none (Print Assumptions: Closed under the global context for every theorem)",
    "C22's hand-written model of LineIndex / LuaDocument (coq/theories/C22/Model.v), tied to the code by C22's exact correspondence check",
    "translator checks/ls_position_sites.py: regex/brace-matching extraction of get_offset / to_rowan_range / token_at_offset sites and of the "
    "`if offset > …end() { return }` guard from crates/emmylua_ls/src/handlers (test code excluded); reviewed allow-list of 4 tree-internal sites "
    "and 1 guarded resolve-data site; reviewed classification of request types (position / range / none); for TextRange::new sites: 6 hand-reviewed "
    "order invariants (REVIEWED_RANGES) pinned to function hashes in checks/ls_position_sites.reviewed.json — those are trusted, not proved",
    "rowan 0.16.1 SyntaxNode::token_at_offset asserts range.start <= offset <= range.end (read from the crate source); TextRange::new asserts start <= end",
    "search harness harness/vh_ls/src/bin/c25.rs: a handler panic is detected by the process-wide panic hook plus the missing response",
]


def translate(ck):
    out = os.path.join(COQ, "theories/Gen/C25_Handlers.v")
    try:
        sites, rows, stale, unknown_types = sites_tr.generate(REPO, out)
    except sites_tr.AnchorMissing as ex:
        ck.tie_broken("translator anchor missing: %s" % ex, "checks/ls_position_sites.py could not regenerate Gen/C25_Handlers.v")
        return None
    ck.cov["table_obligations"].append({"table": "Gen/C25_Handlers.v sites", "rows": len(sites),
                                        "via_get_offset": sum(1 for s in sites if s[2] == "ViaGetOffset"),
                                        "via_rowan_range": sum(1 for s in sites if s[2] == "ViaRowanRange"),
                                        "tree_internal": sum(1 for s in sites if s[2] == "TreeInternal"),
                                        "unknown": sum(1 for s in sites if s[2] == "Unknown"),
                                        "stale_allow_list_entries": [list(x) for x in stale]})
    bad = [s for s in sites if s[2] == "Unknown" or (s[2] == "ViaGetOffset" and s[3] and not s[4])]
    if bad:
        ck.tie_broken("position handler table: %d site(s) do not obtain their offset through get_offset/to_rowan_range or look a token up "
                      "without the root-end guard: %s" % (len(bad), "; ".join("%s::%s (%s)" % (s[0], s[1], s[5]) for s in bad[:6])),
                      json.dumps(bad, indent=1))
    rsites = getattr(sites_tr.generate, "range_sites", [])
    ck.cov["table_obligations"].append({"table": "Gen/C25_Handlers.v range_sites (TextRange::new)", "rows": len(rsites),
                                        "by_kind": {k: sum(1 for r in rsites if r[2] == k) for k in sorted(set(r[2] for r in rsites))}})
    badr = [r for r in rsites if r[2] == "UnknownOrder"]
    if badr:
        ck.tie_broken("TextRange::new sites whose start <= end order is neither evident, guarded nor reviewed: %s" %
                      "; ".join("%s::%s (%s)" % (r[0], r[1], r[3]) for r in badr[:5]), json.dumps(badr, indent=1))
    if unknown_types:
        ck.tie_broken("request types in dispatch_request! that are not classified as position/range/none: %s" % ", ".join(unknown_types),
                      "add them to REQUEST_KIND in checks/ls_position_sites.py after reading their params type")
    return sites, rows


def check_method_coverage(ck, binpath, rows):
    rc, out, err = ck.run_bin(binpath, ["methods"], timeout=60)
    if rc != 0:
        ck.tie_broken("harness c25 methods failed", err[-1000:])
        return
    m = json.loads(jlines(out)[-1])
    have = set(m["position"]) | set(m["range"])
    missing = []
    for t, h, kind in rows:
        if kind in ("position", "range"):
            meth = sites_tr.METHOD_OF.get(t)
            if meth is None or meth not in have:
                missing.append("%s (%s)" % (t, meth))
    if missing:
        ck.tie_broken("position-taking requests of the dispatch table that the search does not exercise: %s" % ", ".join(missing), "")
    ck.cov["distribution"]["position_requests_in_dispatch_table"] = sum(1 for r in rows if r[2] in ("position", "range"))


def case_to_coq(c):
    obs = []
    for o in c["obs"]:
        if len(o) == 3:
            if o[2] != "N":
                return None  # panic/timeout/error: reported by the search, not a model question
            obs.append("((%d,%d), None)" % (o[0], o[1]))
        else:
            obs.append("((%d,%d), Some ((%d,%d),(%d,%d)))" % tuple(o))
    return "{| c_text := %s; c_obs := %s |}" % (coq_list([str(x) for x in c["t"]]), coq_list(obs))


def correspondence(ck, binpath, ndocs, maxpos):
    rc, out, err = ck.run_bin(binpath, ["corr", "--seed", ck.seed, "--docs", ndocs, "--maxpos", maxpos], timeout=900)
    if rc != 0:
        ck.tie_broken("harness c25 corr failed (rc=%s)" % rc, err[-2000:])
        return
    cases = [json.loads(l) for l in jlines(out) if l.strip().startswith("{")]
    terms, kept = [], []
    for c in cases:
        t = case_to_coq(c)
        if t is None:
            ck.tie_broken("selectionRange did not answer during the correspondence run on document %s" % c.get("doc"), json.dumps(c)[:2000])
            continue
        terms.append(t)
        kept.append(c)
    failing = ck.coq_failing("corr", terms, ["EV.C22.Model", "EV.C25.Corr"], per_shard=6)
    for i in failing or []:
        c = kept[i]
        ck.tie_broken("the real server's selectionRange answers disagree with the model's get_offset on document %s" % c.get("doc"),
                      json.dumps(c)[:3000])
    nobs = 0
    for c in kept:
        nobs += len(c["obs"])
        txt = "".join(chr(x) for x in c["t"])
        ck.count_case(("corr", tuple(c["t"])), nontrivial=("\n" in txt or not txt.isascii()))
    ck.cov["distribution"]["corr_documents"] = len(kept)
    ck.cov["distribution"]["corr_positions"] = nobs
    if kept:
        c = kept[min(len(kept) - 1, 6)]
        ck.sample({"kind": "correspondence case (position -> innermost selection range of the real server)", "doc": c.get("doc"),
                   "text": "".join(chr(x) for x in c["t"])[:200], "observations": c["obs"][:6]})


def report(ck, v):
    case = {k: v.get(k) for k in ("doc", "text", "method", "line", "character", "line2", "character2", "class")}
    ck.violation(v["signature"], v["what"], case)


def search(ck, binpath, ndocs, maxpos, size):
    rc, out, err = ck.run_bin(binpath, ["search", "--seed", ck.seed, "--docs", ndocs, "--maxpos", maxpos, "--size", size,
                                        "--corpus", os.path.join(VERIF, "corpus", "C25")], timeout=3000)
    if rc != 0:
        ck.tie_broken("harness c25 search failed (rc=%s)" % rc, err[-2000:])
        return
    for l in jlines(out):
        if not l.strip().startswith("{"):
            continue
        v = json.loads(l)
        if "summary" in v:
            s = v["summary"]
            ck.cov["distribution"]["search"] = s
            ck.add_measured(s["requests"], s["distinct_nontrivial"])
            continue
        report(ck, v)
        ck.sample({"kind": "violation", "what": v["what"][:300]})
    ck.sample({"kind": "search", "note": "see coverage.distribution.search for the per-method response counts and position classes"})


def replay(ck, binpath, path):
    data = json.load(open(path))
    for v in data.get("violations", []):
        c = v.get("case", {})
        if not c.get("method"):
            continue
        rc, out, err = ck.run_bin(binpath, ["one", "--text-json", json.dumps(c.get("text", "")), "--method", c["method"],
                                            "--line", c.get("line", 0), "--character", c.get("character", 0),
                                            "--line2", c.get("line2", c.get("line", 0)), "--character2", c.get("character2", c.get("character", 0))], timeout=300)
        for l in jlines(out):
            if l.strip().startswith("{"):
                r = json.loads(l)
                if not r.get("responded") or not r.get("alive"):
                    ck.violation(v["signature"], "replay: %s got no response (%s %s)" % (c["method"], r.get("outcome"), r.get("detail", "")[:200]), c)


def main(argv):
    ck = Check("C25", argv)
    bins = ck.build_harness("vh_ls", ["c25"])
    if ck.replay and bins:
        replay(ck, bins["c25"], ck.replay)
        ck.finish(trusted_base=TRUSTED)
    tr = translate(ck)
    ok = ck.coq_make(["theories/C25/Props.vo", "theories/C25/Corr.vo"])
    if ok:
        ck.coq_gates(["Base", "C22", "C25"], THEOREMS, "EV.C25.Props")
    else:
        ck.cov["obligations"] += len(THEOREMS)
    if bins:
        if tr:
            check_method_coverage(ck, bins["c25"], tr[1])
        if os.path.exists(os.path.join(COQ, "theories/C25/Corr.vo")):
            correspondence(ck, bins["c25"], ck.scale(24, 120), ck.scale(24, 60))
        if ck.broken:
            ck.deep = True
        search(ck, bins["c25"], ck.scale(70, 700), ck.scale(40, 90), ck.scale(4, 6))
    ck.finish(
        trusted_base=TRUSTED,
        rule="documents: corpus/C25 + 23 hand-written documents (empty, CRLF, lone CR, emoji, unterminated string/comment, NUL, BOM, doc comments) + "
             "generated programs in 8 modes (ascii, crlf, unicode, truncated, unterminated, token soup, blank, mixed EOL); per document up to maxpos "
             "positions (every token boundary of the real parser's tree when it fits, inside surrogate pairs, 1/2/100/65535/u32::MAX past line ends, "
             "lines past the end up to u32::MAX) x 12 position requests, and ranges (empty, ordered, reversed, whole, out of range) x 5 range requests; "
             "evaluations = requests sent to the real server; non-trivial document = multi-line or non-ASCII; distinct by document text",
        assumptions=["texts shorter than 4 GiB",
                     "the proof covers the handler prologue (offset acquisition, guard, token lookup precondition, range conversion and slicing); "
                     "handler bodies after the prologue are explored by the search only",
                     "TreeInternal sites (offsets read from the syntax tree / index, reviewed allow-list) are outside the client-position property"])
