"""C19 — diagnostic suppression comments affect exactly their scope
(harness vh_analysis/c19, model EV.C19.Model, theorems EV.C19.Props)"""
import json
from vcheck import *

META = {
    "category": "proof",
    "text": 'Theorems about the Gallina transcription of the suppression kernel (DiagnosticAction::is_match/is_in_scope, the per-file '
            'action vector and file-level sets, the scope construction of disable / disable-next-line / disable-line / enable over the '
            'C22 line-index model, should_report_diagnostic and is_checker_enable_by_code) for ALL texts, tag lists, ranges and codes: '
            'the index suppresses a diagnostic iff some tag lists its code and the tag\'s own scope shares a position with it '
            '(touching does not count); the disable-line scope is exactly the comment\'s line and the disable-next-line scope exactly '
            'the comment plus the line directly after it (LF, CRLF, lone CR); INSIDE: a diagnostic within the scope with a listed code '
            '(or no list) is never reported; OUTSIDE: a diagnostic that shares nothing with any listing tag\'s scope is reported exactly '
            'as without tags; file-level disable; enable-after-disable. The model is tied to the code by an exact correspondence '
            '(recorded actions, file-level sets, is_file_diagnostic_code_disabled on an offset grid, and diagnose_file with vs without '
            'the comments) and the property is searched directly through diagnose_file with a line-based oracle.',
    "note": 'Trusted: Coq kernel; the hand model (validated by correspondence on generated programs, not proved equal to the Rust); '
            'the parser is not modelled — comment and owner-block ranges are inputs read off the real syntax tree; C22 line-index model. '
            'Axioms: none. Two defects repaired in /repo by one fix commit (touching ranges; no scope when the comment is on the last line).',
    "technique": "Coq proof (sorted line-offset invariants, fold invariants) about a hand-written Gallina transcription + exact "
                 "model-vs-implementation correspondence + metamorphic oracle search through diagnose_file",
}

THEOREMS = [("in_scope_exact", "theorem"), ("touching_not_in_scope", "theorem"), ("suppressed_iff", "theorem"),
            ("line_scope_is_the_line", "theorem"), ("next_line_scope_is_comment_and_next_line", "theorem"),
            ("next_line_range_ordered", "theorem"), ("inside_suppressed", "theorem"), ("file_level_suppressed", "theorem"),
            ("outside_untouched", "theorem"), ("no_shared_line_outside", "theorem"), ("enable_after_disable", "theorem"),
            ("scope_example", "example"), ("hypotheses_example", "example")]

TRUSTED = [
    "Coq 8.16.1 kernel (coqc), vm_compute used in Examples and in the correspondence evaluation; no native_compute",
    "axioms: none (Print Assumptions: Closed under the global context for every theorem)",
    "hand-written model coq/theories/C19/Model.v of db_index/diagnostic/{diagnostic_action,mod}.rs, "
    "compilation/analyzer/doc/diagnostic_tags.rs and should_report_diagnostic / anchor_range / is_checker_enable_by_code of "
    "diagnostic/checker/mod.rs, over the line-index model coq/theories/C22/Model.v; tied by the correspondence check "
    "(harness vh_analysis/src/bin/c19.rs + coq/theories/C19/Corr.v)",
    "modelling assumptions: the parser is outside the model (a tag carries the comment range, owner block range, top-level flag and "
    "code list that the analyzer reads off the syntax tree; the harness reads the same values off the real tree); offsets are "
    "unbounded N (Rust u32); HashSet file-level sets are lists used only through membership; diagnostic codes are their index in "
    "DiagnosticCode::all()",
    "search oracle: independent line table (LF / CRLF / lone CR, UTF-16 columns) and line-based scope rules inside the harness; "
    "comment and block extents come from the real parser",
]

KINDS = ["TDisable", "TDisableNextLine", "TDisableLine", "TEnable", "TOther"]


def pair(p):
    return "(%d,%d)" % (p[0], p[1])


def case_to_coq(c):
    tags = []
    for t in c["tags"]:
        tags.append("{| t_kind := %s; t_comment := %s; t_block := %s; t_top := %s; t_codes := %s |}" % (
            KINDS[t["k"]], pair(t["c"]), "None" if t["b"] is None else "Some %s" % pair(t["b"]),
            "true" if t["top"] else "false",
            "None" if t["codes"] is None else "Some %s" % coq_list([str(x) for x in t["codes"]])))
    acts = ["(%s, %s, %s)" % (pair(a[:2]), "None" if a[2] < 0 else "Some %d" % a[2], "true" if a[3] else "false") for a in c["acts"]]
    q = ["((%s,%d),%s)" % (pair(e[:2]), e[2], "true" if e[3] else "false") for e in c["q"]]
    d0 = ["(%s,%d)" % (pair(d[:2]), d[2]) for d in c["d0"]]
    d1 = ["(%s,%d)" % (pair(d[:2]), d[2]) for d in c["d1"]]
    return ("{| c_text := %s; c_tags := %s; c_actions := %s; c_univ := %s; c_fdis := %s; c_fen := %s; c_q := %s; "
            "c_e2e := %s; c_d0 := %s; c_d1 := %s |}") % (
        coq_list([str(x) for x in c["t"]]), coq_list(tags), coq_list(acts), coq_list([str(x) for x in c["univ"]]),
        coq_list([str(x) for x in c["fdis"]]), coq_list([str(x) for x in c["fen"]]), coq_list(q),
        "true" if c["e2e"] else "false", coq_list(d0), coq_list(d1))


def correspondence(ck, binpath, n):
    rc, out, err = ck.run_bin(binpath, ["corr", "--seed", ck.seed, "--n", n, "--corpus", os.path.join(VERIF, "corpus", "C19")])
    if rc != 0:
        ck.tie_broken("harness c19 corr failed", err[-2000:])
        return
    cases = []
    for l in jlines(out):
        if not l.strip():
            continue
        c = json.loads(l)
        if "error" in c:
            ck.violation("crash" if "panic" in c["error"] else "no-result",
                         "analysis failed on a generated program: %s" % c["error"], {"text": "".join(chr(x) for x in c["t"])})
            continue
        cases.append(c)
    failing = ck.coq_failing("corr", [case_to_coq(c) for c in cases], ["EV.C19.Model", "EV.C19.Corr"], per_shard=30)
    nobs = 0
    kinds = {}
    for c in cases:
        nobs += len(c["acts"]) + len(c["q"]) + 2 * len(c["univ"]) + (len(c["d0"]) if c["e2e"] else 0)
        for t in c["tags"]:
            kinds[KINDS[t["k"]]] = kinds.get(KINDS[t["k"]], 0) + 1
        ck.count_case(("corr", c["text"]), nontrivial=bool(c["tags"]) and bool(c["d0"]))
    for n_probed, i in enumerate(failing or []):
        c = cases[i]
        # the model and the implementation disagree on this program: judge it (and probe-statement variants of it) with the
        # property oracle, and shrink; a failing verdict is a concrete violation
        if n_probed < 8:
            prc, pout, perr = ck.run_bin(binpath, ["probe", "--text-json", json.dumps(c["text"]), "--corpus", os.path.join(VERIF, "corpus", "C19")], timeout=600)
            for pl in jlines(pout):
                if pl.strip():
                    v = json.loads(pl)
                    ck.violation(v["signature"], "%s in program %r (%s; the correspondence disagreed on %r)" % (
                        v["what"], v["text"], v.get("derived_from", "the disagreeing program"), c["text"][:300]),
                        {"text": v["text"], "what": v["what"], "original": c["text"]})
        ck.tie_broken("model/implementation disagreement on suppression (actions, file sets, is_file_diagnostic_code_disabled or "
                      "diagnose_file with/without comments) for program %r" % c["text"], json.dumps({k: c[k] for k in ("text", "tags", "acts", "fdis", "fen", "d0", "d1")})[:4000])
    ck.cov["distribution"]["corr_programs"] = len(cases)
    ck.cov["distribution"]["corr_observations"] = nobs
    ck.cov["distribution"]["corr_tags"] = kinds
    ck.cov["distribution"]["corr_end_to_end"] = sum(1 for c in cases if c["e2e"])
    for c in cases:
        if len(c["tags"]) >= 2 and c["d0"] and len(c["text"]) < 300:
            ck.sample({"kind": "correspondence case", "text": c["text"], "tags": c["tags"], "actions": c["acts"],
                       "diagnostics_without_comments": c["d0"][:8], "with_comments": c["d1"][:8]}, cap=2)
            break


def report(ck, v):
    ck.violation(v["signature"], "%s in program %r" % (v["what"], v["text"]), {"text": v["text"], "what": v["what"]})


def search(ck, binpath, n):
    rc, out, err = ck.run_bin(binpath, ["search", "--seed", ck.seed, "--n", n, "--corpus", os.path.join(VERIF, "corpus", "C19")])
    if rc != 0:
        ck.tie_broken("harness c19 search failed", err[-2000:])
        return
    for l in jlines(out):
        if not l.strip():
            continue
        v = json.loads(l)
        if "summary" in v:
            ck.cov["distribution"]["search"] = v["summary"]
            ck.add_measured(v["summary"]["cases"], v["summary"]["distinct_nontrivial"])
            continue
        report(ck, v)


def replay(ck, binpath, path):
    data = json.load(open(path))
    for v in data.get("violations", []):
        t = v["case"].get("text")
        if t is None:
            continue
        rc, out, err = ck.run_bin(binpath, ["one", "--text-json", json.dumps(t)])
        for l in jlines(out)[1:]:
            if l.strip():
                report(ck, json.loads(l))


def main(argv):
    ck = Check("C19", argv)
    bins = ck.build_harness("vh_analysis", ["c19"])
    if ck.replay and bins:
        replay(ck, bins["c19"], ck.replay)
        ck.finish(trusted_base=TRUSTED)
    ok = ck.coq_make(["theories/C19/Props.vo", "theories/C19/Corr.vo"])
    if ok:
        ck.coq_gates(["Base", "C22", "C19"], THEOREMS, "EV.C19.Props")
    if bins:
        if ok or os.path.exists(os.path.join(COQ, "theories/C19/Corr.vo")):
            correspondence(ck, bins["c19"], ck.scale(400, 1600))
        if ck.broken:
            ck.deep = True
        search(ck, bins["c19"], ck.scale(3000, 60000))
    ck.finish(
        trusted_base=TRUSTED,
        rule="generated Lua programs (nested do/if/elseif/else/function/while/for/repeat blocks, adjacent blocks, statements at column 0 "
             "and indented, multi-line statements, annotation comments, non-ASCII strings; LF / CRLF / lone CR / mixed line ends; with "
             "or without a final line end) carrying diagnostics of 8 codes at generated positions, combined with generated "
             "disable / disable-next-line / disable-line / enable comments (own line, trailing, multi-line comment groups; no list, "
             "one or several codes incl. unknown names); each program is analysed by diagnose_file with the comments and with them "
             "neutralised; a share of the programs places a line-level comment before a block-level / file-level disable with "
             "diagnostics of the disabled code before, between and after the two comments; the scope of `disable` is judged as the "
             "whole enclosing block (whole file at top level), also before the comment; when the correspondence disagrees on a "
             "program the oracle judges that program and probe-statement variants of it and shrinks a failing one; non-trivial = the program has at least one @diagnostic tag and at least one diagnostic without the "
             "comments; distinct by program text. The hand-written corpus (corpus/C19) runs first.",
        assumptions=["the parser's comment / block extents are taken as given (read off the real syntax tree)",
                     "correspondence and search are sampled (they validate the model and look for replays; the theorems carry the all-inputs claim)",
                     "an empty diagnostic range at the very end of the file is anchored to the last character (anchor_range), as the parser's own end-of-file errors are"])
