from store_common import *

META = {
    "category": "proof",
    "text": 'Per-file fact stores as state machines (coq/theories/Base/StoreSM.v: add / remove / clear / obs / mentions / size, with the driver update = remove;add, remove, reindex on top). For LuaModuleIndex (full refinement proof, shared with C33) Coq proves for EVERY driver history: re-submitting a file with unchanged facts changes no answer (resubmit_obs, outside the class "another file is registered under the same module path", whose violation is proved as resubmit_obs_shared_refuted), never changes a container count (resubmit_size: no growth), and edit-then-restore equals never touching the file (edit_restore). LuaGlobalIndex and DiagnosticIndex (file-level code sets) have full StoreSM refinements as well (global_resubmit_obs with its refutation global_resubmit_shared_refuted for a global declared in several files), and the PRODUCT store LuaModuleIndex x LuaGlobalIndex x DiagnosticIndex — the modelled part of DbIndex under update_file_by_uri / remove_file_by_uri / reindex — inherits every theorem (product_resubmit_size, product_resubmit_obs). LuaMemberIndex (One/Many items) is transcribed, tied by correspondence, and its removal rule is proved item by item (member_prune_item_exact: exactly the declarations of the other files survive). For LuaPropertyIndex the transcription proves the known defect (property_resubmit_refuted: re-submitting a file erases what another file contributed to a shared owner) and that every owner the file does not touch keeps its property in every reachable state (property_resubmit_outside_known). LuaPropertyIndex, LuaGlobalIndex, DiagnosticIndex and LuaTypeIndex (per-file part) models are tied by exact correspondence (queries + H2 container counts after every op); the whole analysis is searched end-to-end: multi-file workspaces, histories of re-submissions, batches and edit/restore pairs, full observable dump and H2 sizes compared with the state before.',
    "note": 'Full StoreSM refinement, all theorems, all histories: LuaModuleIndex, LuaGlobalIndex, DiagnosticIndex (file-level code sets) and their product. Transcribed, tied by exact correspondence, partially proved: LuaPropertyIndex (frame theorem + refutation), LuaMemberIndex (declaration members: item-level removal theorem), LuaTypeIndex per-file part (C10 theorems). LuaReferenceIndex (global_references / index_reference) transcribed and tied (C10 theorems). Not modelled (table obligations + end-to-end search only): the per-file maps of LuaReferenceIndex, decl, signature, operator, flow, dependency, metatable, json-schema. Facts written for a file are an input of the model. Known open findings, each with its own signature computed from WHICH part of the dump differs: hover doc/deprecation of a type declared in several files (LuaPropertyIndex, one property per owner); order of the declarations of one global / of one field / of the super clauses of one class / of the files under one module path (submission order); a library file sees main-workspace symbols only when re-submitted (attributed by a causal re-run); JsonSchemaIndex is never cleaned. A change of the member set, of member or inferred types, of diagnostics or of type declarations is in none of them and is a VIOLATION. Axioms: none.',
    "technique": "Coq refinement proof (generic store state machine + invariant over all histories) about hand-written Gallina transcriptions + exact model-vs-implementation correspondence + end-to-end metamorphic search",
}

THEOREMS = [("resubmit_obs", "theorem"), ("resubmit_size", "theorem"), ("edit_restore", "theorem"),
            ("resubmit_obs_shared_refuted", "refutation"), ("property_resubmit_refuted", "refutation"),
            ("property_resubmit_outside_known", "theorem"), ("global_resubmit_obs", "theorem"),
            ("global_resubmit_shared_refuted", "refutation"), ("product_resubmit_size", "theorem"), ("product_resubmit_obs", "theorem"),
            ("member_prune_item_exact", "theorem"),
            ("product_example", "example"), ("resubmit_example", "example")]
PROPS = {"C08"}


def main(argv):
    ck = Check("C08", argv)
    attach_findings(ck)
    bins = ck.build_harness("vh_analysis", ["c08", "c33"])
    if ck.replay and bins:
        replay(ck, bins["c08"], ck.replay, PROPS)
        ck.finish(trusted_base=TRUSTED)
    regenerate_tables(ck)
    ok = ck.coq_make(COQ_TARGETS)
    if ok:
        ck.coq_gates(["Base", "C33", "C08"], THEOREMS, "EV.C08.Props")
    if bins:
        if os.path.exists(os.path.join(COQ, "theories/C08/Corr.vo")):
            index_correspondence(ck, bins["c08"], ck.scale(60, 1200))
        if os.path.exists(os.path.join(COQ, "theories/C33/Corr.vo")):
            module_correspondence(ck, bins["c33"], ck.scale(60, 2500), label="modcorr")
        if ck.broken:
            ck.deep = True
        search(ck, bins["c08"], ck.scale(1500, 60000), PROPS)
    ck.finish(
        trusted_base=TRUSTED,
        rule="correspondence: op sequences (add file facts / remove file / clear, 3-11 ops, 4 files, 4 owners-or-names) on the real LuaPropertyIndex, "
             "LuaGlobalIndex, DiagnosticIndex and add/remove/hide/clear/find sequences on the real LuaModuleIndex; non-trivial = an add followed by a remove or clear; "
             "search: workspaces of 2-5 files (main + optional library root) built from 30 snippet kinds (incl. one field declared for one class in several files, classes split across files with the super clause in one of them) (documented and re-declared classes, fields, "
             "subclasses, globals with docs, requires, aliases, enums, diagnostic annotations, typed locals, methods, deprecation, generics, metatables, "
             "operators, @schema) with histories of 2-8 steps (resubmit, batch resubmit, edit+restore, remove, re-add, edit, configuration change + reindex, reindex) under 6 configurations (moduleMap set / changed / removed, strict require path, require patterns, extensions); a C08 step is judged "
             "when the state is consistent (after the full analysis or a reindex): dump and H2 sizes must equal the baseline; distinct by case",
        assumptions=ASSUMPTIONS)
