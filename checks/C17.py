"""C17 — Rendered types read back as the same type."""
import json
from vcheck import *
import c17_ops

META = {
    "category": "proof",
    "text": "Theorems about a Gallina transcription of the Documentation-level type humanizer, of the doc lexer / doc-type "
            "grammar (operator priorities and render-level limits regenerated from the source into Gen/C17_Ops.v) and of "
            "infer_doc_type with LuaType::from_vec / LuaUnionType::from_vec / union_type: for EVERY type of the sub-grammar "
            "(primitives, string / integer / boolean literals with any content, class / alias / enum references, arrays, "
            "table<..>, records with any key text, fun(..) without return, unions, optionals, arbitrarily nested) that fits the "
            "renderer's size limits, lexing and parsing the rendered text gives back the union normal form the analyzer builds "
            "(parse_render), equal renderings have equal normal forms (render_unambiguous), and for every type in the form the "
            "annotation reader produces, outside two recorded degenerate classes, the type read back is the same type modulo "
            "union member order (reads_back_same_outside_known; the class is shown real by reads_back_same_refuted). The model "
            "is tied to the code by an exact correspondence check (render, parse of the annotation, parse of the rendering) and "
            "the property is searched directly on the implementation.",
    "note": "Trusted: Coq kernel; the hand model (validated by the correspondence on generated annotations, not proved equal "
            "to the Rust); the sub-grammar's side conditions (ASCII names, no index-access keys, i64 literals other than "
            "i64::MIN). Axioms: none.",
    "technique": "Coq proof (printer/parser round trip by induction over types) about a hand-written Gallina transcription "
                 "+ translator-regenerated priority and size-limit tables + exact model-vs-implementation correspondence + "
                 "oracle search",
}

TRUSTED = [
    "Coq 8.16.1 kernel (coqc), vm_compute used in Examples / refutation witnesses and in the correspondence evaluation",
    "axioms: none (Print Assumptions: Closed under the global context for every theorem)",
    "hand-written model coq/theories/C17/Model.v of humanize_type.rs (TypeHumanizer at Documentation level), lua_doc_lexer.rs "
    "(Normal/Mapped states), grammar/doc/types.rs, compilation/analyzer/doc/infer_type.rs, LuaType::from_vec, "
    "LuaUnionType::from_vec, type_ops/union_type.rs; tied by the correspondence check (harness c17.rs + C17/Corr.v)",
    "translator lib/c17_ops.py (regex over lua_type_operator_kind.rs, kind/mod.rs, humanize_type.rs) producing Gen/C17_Ops.v",
    "modelling assumptions: a &str is the list of its chars; names outside string literals are ASCII; class / alias / enum "
    "references have no type parameters and render as their name (no expanded member view below the top level); two separately "
    "parsed object / table<..> / union types are never the same Arc (they hash by pointer in LuaType::from_vec)",
    "search oracle: structural comparison of the analyzer's own types modulo union member order, inside the harness",
]

THEOREMS = [("parse_render", "theorem"), ("render_unambiguous", "theorem"),
            ("reads_back_same_outside_known", "theorem"), ("reads_back_same_refuted", "refutation"),
            ("tokens_of_render", "theorem"), ("roundtrip_example", "example")]

ENV_COQ = ('[(%s, TPrim PString); (%s, TUnion UMulti [TStr %s; TStr %s]); (%s, TRef %s)]'
           % (coq_text("AliS"), coq_text("AliU"), coq_text("x"), coq_text("y"), coq_text("AliC"), coq_text("Cls0")))

PRIMS = {"unknown": "PUnknown", "any": "PAny", "nil": "PNil", "table": "PTable", "userdata": "PUserdata",
         "function": "PFunction", "thread": "PThread", "boolean": "PBoolean", "string": "PString", "integer": "PInteger",
         "number": "PNumber", "io": "PIo", "self": "PSelf", "global": "PGlobal", "never": "PNever"}


class Outside(Exception):
    pass


def cpl(cps):
    return coq_list([str(x) for x in cps])


def coq_Z(s):
    return "(%s)%%Z" % s


def ty_coq(t):
    k = t["k"]
    if k == "prim":
        return "(TPrim %s)" % PRIMS[t["p"]]
    if k == "str":
        return "(TStr %s)" % cpl(t["s"])
    if k == "int":
        return "(TInt %s)" % coq_Z(t["i"])
    if k == "bool":
        return "(TBool %s)" % ("true" if t["b"] else "false")
    if k == "ref":
        return "(TRef %s)" % cpl(t["n"])
    if k == "tableconst":
        return "TTableConst"
    if k == "array":
        return "(TArray %s)" % ty_coq(t["t"])
    if k == "tgen":
        return "(TTableGeneric %s)" % coq_list([ty_coq(x) for x in t["ps"]])
    if k == "object":
        fs = []
        for kk, v in t["fs"]:
            key = "(KInt %s)" % coq_Z(kk["ki"]) if "ki" in kk else "(KName %s)" % cpl(kk["kn"])
            fs.append("(%s, %s)" % (key, ty_coq(v)))
        return "(TObject %s)" % coq_list(fs)
    if k == "fun":
        if t["ret"] != {"k": "prim", "p": "nil"} or t["variadic"]:
            raise Outside()
        ps = ["(%s, %s)" % (cpl(n), "None" if p is None else "(Some %s)" % ty_coq(p)) for n, p in t["ps"]]
        return "(TFun %s)" % coq_list(ps)
    if k == "union":
        u = {"basic": "UBasic", "nullable": "UNullable", "multi": "UMulti"}[t["u"]]
        return "(TUnion %s %s)" % (u, coq_list([ty_coq(x) for x in t["ms"]]))
    raise Outside()


def opt_ty(t):
    if t is None:
        return "None"
    try:
        return "(Some %s)" % ty_coq(t)
    except Outside:
        return "None"


def case_to_coq(c):
    expanded = 10 in c["r"]       # the multi-line member view of a class / enum at the top level
    return ("{| c_env := env0; c_text := %s; c_t0 := %s; c_render := %s; c_r := %s; c_back := %s; c_t1 := %s |}"
            % (cpl(c["text"]), opt_ty(c.get("t0")), "false" if expanded else "true", cpl(c["r"]),
               "false" if (expanded or c.get("t1") is None and expanded) else "true", opt_ty(c.get("t1"))))


def coq_eval_batch(ck, name, case_terms, requires, fns=("check_case",), nshard=4, timeout=1200, prelude=""):
    """Evaluate boolean functions of Corr.v on every case term with vm_compute; the generated files are only
    interpreted (coqtop -batch -l, no .vo is written).  Returns {fn: sorted indices where fn is false} or None."""
    from concurrent.futures import ThreadPoolExecutor
    n = len(case_terms)
    if n == 0:
        return {f: [] for f in fns}
    nshard = max(1, min(nshard, n // 50 or 1))
    idxs = [list(range(i, n, nshard)) for i in range(nshard)]

    def run(k):
        ids = idxs[k]
        path = os.path.join(ck.work, "%s_%d.v" % (name, k))
        with open(path, "w") as fh:
            for r in requires:
                fh.write("Require Import %s.\n" % r)
            fh.write("Local Open Scope N_scope.\n" + prelude + "\n")
            fh.write("Definition cases__ : list case := [\n%s].\n" % ";\n".join(case_terms[i] for i in ids))
            for f in fns:
                fh.write("Definition failing_%s := (fix go (cs : list case) (i : N) : list N := match cs with [] => [] | c :: r => "
                         "if %s c then go r (i + 1) else i :: go r (i + 1) end) cases__ 0.\n" % (f, f))
                fh.write("Eval vm_compute in (%d, failing_%s).\n" % (fns.index(f), f))
        rc, out, err = sh(["coqtop", "-batch", "-Q", os.path.join(COQ, "theories"), "EV", "-l", path], cwd=ck.work, timeout=timeout)
        return rc, out + err

    with ThreadPoolExecutor(max_workers=nshard) as ex:
        results = list(ex.map(run, range(nshard)))
    res = {f: [] for f in fns}
    bad = False
    for (rc, out), ids in zip(results, idxs):
        found = re.findall(r"=\s*\((\d+),\s*\[(.*?)\]\)\s*:\s*N \* list N", out, re.S)
        if rc != 0 or "Error" in out or len(found) != len(fns):
            ck.tie_broken("correspondence evaluation %s did not compile/finish (model or checker broken)" % name, out[-3000:])
            bad = True
            continue
        for k, body in found:
            for x in re.findall(r"\d+", body):
                res[fns[int(k)]].append(ids[int(x)])
    return None if bad else {f: sorted(v) for f, v in res.items()}


def txt(cps):
    return "".join(chr(x) for x in cps)


def correspondence(ck, binpath, n):
    rc, out, err = ck.run_bin(binpath, ["corr", "--seed", ck.seed, "--n", n])
    if rc != 0:
        ck.tie_broken("harness c17 corr failed", err[-2000:])
        return
    cases = [json.loads(l) for l in out.split("\n") if l.strip()]
    cases = [c for c in cases if not c.get("panic")]
    terms = [case_to_coq(c) for c in cases]
    prelude = "Definition env0 : env := %s.\n" % ENV_COQ
    res = coq_eval_batch(ck, "corr", terms, ["EV.C17.Model", "EV.C17.Corr"], fns=("check_case", "defined_case"), prelude=prelude)
    if res is None:
        return
    failing, undefined = res["check_case"], res["defined_case"]
    for i in failing[:10]:
        c = cases[i]
        ck.tie_broken("model/implementation disagreement on annotation %r (rendered %r)" % (txt(c["text"]), txt(c["r"])),
                      json.dumps(c)[:3000])
    ck.cov["traces_validated_against_impl"] += len(terms)
    modelled = sum(1 for c in cases if opt_ty(c.get("t0")) != "None")
    for c in cases:
        ck.count_case(("corr", tuple(c["text"])), nontrivial=len(c["text"]) > 9)
    ck.cov["distribution"]["corr_cases"] = len(cases)
    ck.cov["distribution"]["corr_types_inside_model"] = modelled
    ck.cov["distribution"]["corr_model_answers_both_parses"] = len(cases) - len(undefined or [])
    if cases:
        c = cases[min(len(cases) - 1, 70)]
        ck.sample({"kind": "correspondence case", "annotation": txt(c["text"]), "rendered": txt(c["r"]), "fits_limits": c.get("fits")})
    if undefined is not None and len(cases) - len(undefined) < len(cases) // 2:
        ck.tie_broken("the model answers fewer than half of the generated annotations (it no longer covers the sub-grammar)",
                      "%d of %d" % (len(cases) - len(undefined), len(cases)))


def report(ck, v):
    case = {k: v[k] for k in ("text", "rendered", "culprit_rendered") if k in v}
    ck.violation(v["signature"], v["what"], case)


def search(ck, binpath, n):
    rc, out, err = ck.run_bin(binpath, ["search", "--seed", ck.seed, "--n", n])
    if rc != 0:
        ck.tie_broken("harness c17 search failed", err[-2000:])
        return
    for l in out.split("\n"):
        if not l.strip():
            continue
        v = json.loads(l)
        if "summary" in v:
            s = v["summary"]
            ck.cov["distribution"]["search"] = s
            ck.add_measured(s["checked"], s["distinct_nontrivial"])
            continue
        report(ck, v)
        ck.sample({"kind": "search violation", "signature": v["signature"], "annotation": v.get("text"), "rendered": v.get("rendered")})


def replay(ck, binpath, path):
    data = json.load(open(path))
    for v in data.get("violations", []):
        t = v["case"].get("text")
        if t is None:
            continue
        rc, out, err = ck.run_bin(binpath, ["one", "--text", t])
        for l in out.split("\n"):
            vv = json.loads(l)
            if vv.get("verdict") == "Differs":
                ck.violation(vv["signature"], "type %r renders as %r, which reads back as a different type" % (t, vv["rendered"]),
                             {"text": t, "rendered": vv["rendered"]})


def main(argv):
    ck = Check("C17", argv)
    bins = ck.build_harness("vh_analysis", ["c17"])
    if ck.replay and bins:
        replay(ck, bins["c17"], ck.replay)
        ck.finish(trusted_base=TRUSTED)
    try:
        changed, _ = c17_ops.regenerate(REPO, os.path.join(COQ, "theories/Gen/C17_Ops.v"))
        ck.cov["table_obligations"].append({"table": "Gen/C17_Ops.v", "regenerated": True, "changed": changed})
    except c17_ops.Anchor as ex:
        ck.tie_broken("translator c17_ops: anchor missing in the source (%s)" % ex, str(ex))
    ok = ck.coq_make(["theories/C17/Props.vo", "theories/C17/Corr.vo"])
    if ok:
        ck.log("gates")
        ck.coq_gates(["C17"], THEOREMS, "EV.C17.Props")
    if bins:
        ck.log("correspondence")
        if ok or os.path.exists(os.path.join(COQ, "theories/C17/Corr.vo")):
            correspondence(ck, bins["c17"], ck.scale(1000, 20000))
        ck.log("search")
        if ck.broken:
            ck.deep = True
        search(ck, bins["c17"], ck.scale(12000, 300000))
    ck.finish(
        trusted_base=TRUSTED,
        rule="annotation texts generated from the sub-grammar in 6 modes (plain, odd record keys, escapes in literals and keys, "
             "all primitives incl. any/unknown/never, array-heavy nesting of unions/optionals/functions, wide unions and "
             "records), hand-written witnesses first; each is read by the analyzer, rendered at Documentation level and read "
             "back; display-only renderings (tuples, functions with a return type, the expanded class view, truncated types) "
             "are skipped and counted; non-trivial = the type has at least one constructor besides a leaf; distinct by the "
             "type modulo union order",
        assumptions=["correspondence and search are sampled (they validate the model and look for replays; the theorems carry "
                     "the all-types claim)",
                     "names outside string literals are ASCII; literals are within i64 (not i64::MIN)"])
