"""Shared driver library for /verif checks.

Life-cycle of one check (see DESIGN.md section 3):
  1. build the harness binary against /repo's working tree (cargo, offline, hooks cfg on)
  2. regenerate translator tables (if the property uses any)
  3. build the property's Coq files (full .vo) and run the static gates
     (forbidden-word grep, Print Assumptions allow-list, pinned statements)
  4. correspondence: implementation observations vs the Gallina model (vm_compute in coqc)
  5. search: property oracle on the implementation
  6. verdict, replay, known findings, evidence
"""
import hashlib
import json
import os
import re
import shutil
import subprocess
import sys
import time

VERIF = os.path.dirname(os.path.dirname(os.path.abspath(__file__)))
REPO = os.environ.get("VERIF_REPO", "/repo")
CACHE = os.path.join(VERIF, ".cache")
COQ = os.path.join(VERIF, "coq")
HARNESS = os.path.join(VERIF, "harness")
GUARD = "emmyluals_emmylua_analyzer_rust_verif"
RUSTFLAGS = "--cfg %s --check-cfg cfg(%s)" % (GUARD, GUARD)
NCPU = os.cpu_count() or 4

FORBIDDEN = re.compile(
    r"\b(Admitted|admit|Axiom|Axioms|Parameter|Parameters|Conjecture|Conjectures|Hypothesis|Hypotheses|Variable|Variables|Context)\b"
    r"|Unset\s+Guard|bypass_check|Admit\s+Obligations|-type-in-type|impredicative-set|Unset\s+Universe\s+Checking|Unset\s+Positivity"
)
# axioms of the standard library that a theorem may depend on (each named in DESIGN.md section 9)
AXIOM_ALLOW = {
    "functional_extensionality_dep",
    "FunctionalExtensionality.functional_extensionality_dep",
    "Eqdep.Eq_rect_eq.eq_rect_eq",
    "JMeq.JMeq_eq",
    "Classical_Prop.classic",
    "ProofIrrelevance.proof_irrelevance",
}


def alt_repo():
    """VERIF_REPO=<dir> runs the checks against another checkout of the repository (used to try seeded breakages
    in a scratch worktree without touching /repo): the harness workspace is mirrored with its path dependencies
    rewritten and built into a separate target directory."""
    return REPO != "/repo"


def target_dir():
    if alt_repo():
        return os.path.join(CACHE, "target-alt-" + hashlib.sha1(REPO.encode()).hexdigest()[:8])
    return os.path.join(CACHE, "target")


def harness_dir():
    if not alt_repo():
        return HARNESS
    dst = os.path.join(CACHE, "harness-alt-" + hashlib.sha1(REPO.encode()).hexdigest()[:8])
    shutil.rmtree(dst, ignore_errors=True)
    shutil.copytree(HARNESS, dst, ignore=shutil.ignore_patterns("target", "Cargo.lock"))
    for root, _, names in os.walk(dst):
        for n in names:
            if n == "Cargo.toml":
                fp = os.path.join(root, n)
                txt = open(fp).read().replace('"/repo/', '"%s/' % REPO.rstrip("/"))
                open(fp, "w").write(txt)
    shutil.copy(os.path.join(REPO, "Cargo.lock"), os.path.join(dst, "Cargo.lock"))
    return dst


def env_base():
    e = dict(os.environ)
    e["CARGO_NET_OFFLINE"] = "true"
    e["CARGO_TARGET_DIR"] = target_dir()
    e["RUSTFLAGS"] = RUSTFLAGS
    e.setdefault("RUST_BACKTRACE", "0")
    return e


def sh(cmd, timeout=None, cwd=None, env=None, input=None):
    """run; returns (rc, stdout, stderr); rc=124 on timeout"""
    try:
        p = subprocess.run(cmd, cwd=cwd, env=env, input=input, capture_output=True,
                           text=True, timeout=timeout, errors="replace")
        return p.returncode, p.stdout, p.stderr
    except subprocess.TimeoutExpired as ex:
        out = ex.stdout.decode("utf8", "replace") if isinstance(ex.stdout, bytes) else (ex.stdout or "")
        err = ex.stderr.decode("utf8", "replace") if isinstance(ex.stderr, bytes) else (ex.stderr or "")
        return 124, out, err + "\nTIMEOUT after %ss" % timeout


def strip_coq_comments(src):
    out = []
    depth = 0
    i = 0
    n = len(src)
    instr = False
    while i < n:
        c = src[i]
        if depth == 0 and c == '"':
            instr = not instr
            out.append(c)
            i += 1
            continue
        if not instr and src.startswith("(*", i):
            depth += 1
            i += 2
            continue
        if not instr and depth > 0 and src.startswith("*)", i):
            depth -= 1
            i += 2
            continue
        if depth == 0:
            out.append(c)
        i += 1
    return "".join(out)


def section_aware_forbidden(path):
    """Return list of (line, word) for forbidden vernacular in a .v file.
    Variable/Hypothesis are allowed inside a Section (they are discharged), forbidden outside."""
    src = strip_coq_comments(open(path, encoding="utf8").read())
    hits = []
    depth = 0
    for ln, line in enumerate(src.split("\n"), 1):
        # strings may contain anything; drop them
        l2 = re.sub(r'"[^"]*"', '""', line)
        if re.match(r"\s*Section\s+\w+", l2):
            depth += 1
        m = re.match(r"\s*End\s+(\w+)", l2)
        for mm in FORBIDDEN.finditer(l2):
            w = mm.group(0)
            if re.match(r"(Variable|Variables|Hypothesis|Hypotheses|Context)$", w) and depth > 0:
                continue
            hits.append((ln, w))
        if m and depth > 0:
            # "End name." closes a section or a module; modules are not used with Variables
            depth -= 1
    return hits


class Check:
    def __init__(self, prop, argv=None):
        import argparse
        ap = argparse.ArgumentParser()
        ap.add_argument("--tier", default=os.environ.get("VERIF_TIER", "quick"))
        ap.add_argument("--replay", default=None)
        ap.add_argument("--seed", default=None)
        a = ap.parse_args(argv)
        self.prop = prop
        self.tier = a.tier if a.tier in ("quick", "thorough") else "quick"
        seed = a.seed if a.seed is not None else os.environ.get("VERIF_SEED", "1")
        try:
            self.seed = int(seed)
        except ValueError:
            self.seed = int(hashlib.sha256(str(seed).encode()).hexdigest()[:8], 16)
        self.replay = a.replay
        self.t0 = time.time()
        self.work = os.path.join(CACHE, "run", prop)
        shutil.rmtree(self.work, ignore_errors=True)
        os.makedirs(self.work, exist_ok=True)
        os.makedirs(os.path.join(VERIF, "replays"), exist_ok=True)
        os.makedirs(os.path.join(VERIF, "evidence"), exist_ok=True)
        self.cov = {
            "obligations": 0, "discharged": 0, "checker_cmd": "", "trusted_base": [],
            "evaluations": 0, "distinct_nontrivial": 0, "rule": "", "samples": [],
            "traces_validated_against_impl": 0, "theorems": [], "table_obligations": [],
            "distribution": {}, "explanation": "",
        }
        self.assumptions = []
        self.broken = []       # proof/tie breakages: dicts {kind, what, detail}
        self.violations = []   # concrete failing inputs: dicts {signature, what, case}
        self.known_hits = []
        self.notes = []
        self._distinct = set()
        self._distinct_extra = 0
        self.deep = False

    # ------------------------------------------------------------------ utils
    def log(self, *a):
        print("[%s %6.1fs]" % (self.prop, time.time() - self.t0), *a, flush=True)

    def scale(self, quick, thorough):
        return thorough if (self.tier == "thorough" or self.deep) else quick

    def count_case(self, key, nontrivial=True):
        """count an evaluation; key is any hashable/str describing the case structure"""
        self.cov["evaluations"] += 1
        if nontrivial:
            h = hashlib.blake2b(repr(key).encode("utf8", "replace"), digest_size=8).digest()
            self._distinct.add(h)

    def add_counts(self, evaluations, distinct_keys):
        self.cov["evaluations"] += evaluations
        for k in distinct_keys:
            self._distinct.add(hashlib.blake2b(repr(k).encode("utf8", "replace"), digest_size=8).digest())

    def add_measured(self, evaluations, distinct_nontrivial):
        """counts measured by the harness itself (it de-duplicates by hashing its cases)"""
        self.cov["evaluations"] += int(evaluations)
        self._distinct_extra += int(distinct_nontrivial)

    def sample(self, s, cap=6):
        if len(self.cov["samples"]) < cap:
            self.cov["samples"].append(s)

    # ---------------------------------------------------------------- harness
    def build_harness(self, crate, bins):
        """cargo build --release of harness bins; returns dict bin->path or None (tie broken)"""
        if isinstance(bins, str):
            bins = [bins]
        hdir = harness_dir()
        lock_src = os.path.join(REPO, "Cargo.lock")
        lock_dst = os.path.join(hdir, "Cargo.lock")
        if not os.path.exists(lock_dst) and os.path.exists(lock_src):
            shutil.copy(lock_src, lock_dst)
        cmd = ["cargo", "build", "--release", "--offline", "-p", crate]
        for b in bins:
            cmd += ["--bin", b]
        self.log("cargo build", crate, bins)
        rc, out, err = sh(cmd, cwd=hdir, env=env_base(), timeout=3600)
        if rc != 0:
            print("---- cargo build failed (tail) ----\n" + err[-3000:] + "\n----", flush=True)
            self.broken.append({"kind": "tie", "what": "harness %s/%s no longer builds against /repo" % (crate, ",".join(bins)),
                                "detail": err[-6000:]})
            return None
        return {b: os.path.join(target_dir(), "release", b) for b in bins}

    def build_repo_bin(self, package, bin_name, features=None):
        """build one of /repo's own binaries (emmylua_check, emmylua_doc_cli, luafmt, emmylua_ls, schema_to_emmylua)
        from the current working tree into the shared target dir; returns its path or None (tie broken)"""
        cmd = ["cargo", "build", "--release", "--offline", "--manifest-path", os.path.join(REPO, "Cargo.toml"),
               "-p", package, "--bin", bin_name]
        if features:
            cmd += ["--features", features]
        self.log("cargo build (repo binary)", package, bin_name)
        rc, out, err = sh(cmd, cwd=REPO, env=env_base(), timeout=3600)
        if rc != 0:
            self.broken.append({"kind": "tie", "what": "/repo binary %s no longer builds" % bin_name, "detail": err[-6000:]})
            return None
        return os.path.join(target_dir(), "release", bin_name)

    def run_bin(self, path, args, input=None, timeout=1800, env_extra=None):
        e = env_base()
        if env_extra:
            e.update(env_extra)
        return sh([path] + [str(a) for a in args], input=input, timeout=timeout, env=e, cwd=self.work)

    # -------------------------------------------------------------------- coq
    def coq_make(self, targets, timeout=1800):
        """make the given .vo targets (paths relative to coq/), full .vo build"""
        ensure_coq_makefile()
        cmd = ["make", "-j%d" % NCPU, "-f", "Makefile.coq"] + targets
        self.log("coq make", targets)
        rc, out, err = sh(cmd, cwd=COQ, timeout=timeout)
        if rc != 0:
            tail = (out + "\n" + err)[-6000:]
            self.broken.append({"kind": "proof", "what": "Coq build failed for %s" % " ".join(targets), "detail": tail})
            return False
        return True

    def coq_files_of(self, dirs):
        fs = []
        for d in dirs:
            p = os.path.join(COQ, "theories", d)
            for root, _, names in os.walk(p):
                for n in sorted(names):
                    if n.endswith(".v"):
                        fs.append(os.path.join(root, n))
        return fs

    def coq_gates(self, dirs, theorems, module, extra_allow=()):
        """static gates. dirs: theory sub-directories that belong to the property (incl. Base);
        theorems: list of (name, kind) where kind in {'theorem','refutation','example','table'};
        module: logical module holding them, e.g. 'EV.C22.Props'."""
        ok = True
        for f in self.coq_files_of(dirs):
            hits = section_aware_forbidden(f)
            if hits:
                ok = False
                self.broken.append({"kind": "proof", "what": "forbidden vernacular in %s" % os.path.relpath(f, VERIF),
                                    "detail": json.dumps(hits[:10])})
        names = [t[0] for t in theorems]
        self.cov["obligations"] += len(names)
        audit = os.path.join(self.work, "Audit_%s.v" % self.prop)
        mods = module if isinstance(module, (list, tuple)) else [module]
        with open(audit, "w") as fh:
            for m in mods:
                fh.write("Require Import %s.\n" % m)
            for n in names:
                fh.write('Goal True. idtac "@@BEGIN %s". Abort.\n' % n)
                fh.write("Print Assumptions %s.\n" % n)
                fh.write('Goal True. idtac "@@END %s". Abort.\n' % n)
        cmd = ["coqc", "-noglob", "-Q", os.path.join(COQ, "theories"), "EV", audit]
        rc, out, err = sh(cmd, cwd=self.work, timeout=900)
        self.cov["checker_cmd"] = ("make -C coq -f Makefile.coq <property .vo targets> (coqc 8.16.1, full .vo) ; "
                                   "coqc Audit.v with Print Assumptions for each theorem ; forbidden-vernacular grep")
        if rc != 0:
            self.broken.append({"kind": "proof", "what": "audit of theorems failed (a theorem is missing or does not compile)",
                                "detail": (out + err)[-4000:]})
            return False
        for n, kind in theorems:
            m = re.search(r"@@BEGIN %s\n(.*?)@@END %s\n" % (re.escape(n), re.escape(n)), out, re.S)
            body = m.group(1) if m else ""
            axioms = []
            if "Closed under the global context" not in body:
                for line in body.split("\n"):
                    mm = re.match(r"^([A-Za-z_][\w.']*)\s*:", line)
                    if mm:
                        axioms.append(mm.group(1))
                if not m or not axioms and "Axioms:" not in body:
                    axioms.append("<unparsed>")
            bad = [a for a in axioms if a not in AXIOM_ALLOW and a not in extra_allow]
            rec = {"name": n, "kind": kind, "axioms": axioms}
            self.cov["theorems"].append(rec)
            if bad:
                ok = False
                self.broken.append({"kind": "proof", "what": "theorem %s depends on non-allow-listed axioms" % n,
                                    "detail": ", ".join(bad)})
            else:
                self.cov["discharged"] += 1
        return ok

    def coq_eval(self, name, body, requires, timeout=900):
        """compile a generated file under coqc; returns (rc, stdout+stderr)"""
        path = os.path.join(self.work, name + ".v")
        with open(path, "w") as fh:
            for r in requires:
                fh.write("Require Import %s.\n" % r)
            fh.write(body)
        cmd = ["coqc", "-noglob", "-Q", os.path.join(COQ, "theories"), "EV", path]
        rc, out, err = sh(cmd, cwd=self.work, timeout=timeout)
        return rc, out + err

    def coq_eval_shards(self, name, bodies, requires, timeout=900):
        """run several generated files in parallel; returns list of (rc, output)"""
        from concurrent.futures import ThreadPoolExecutor
        # coqc needs roughly 0.5-1 GB per MB of case terms: big batches run fewer shards at a time
        total_mb = sum(len(b) for b in bodies) / 1e6
        workers = NCPU if total_mb < 16 else max(4, NCPU // 3)
        with ThreadPoolExecutor(max_workers=workers) as ex:
            futs = [ex.submit(self.coq_eval, "%s_%d" % (name, i), b, requires, timeout) for i, b in enumerate(bodies)]
            results = [f.result() for f in futs]
        # a shard that ran out of time on a loaded machine is retried alone with three times the budget before
        # it is believed (a model that really diverges still ends as a broken tie)
        for i, (rc, out) in enumerate(results):
            if rc in (124, 137, -9):
                self.log("coq shard %s_%d timed out / was killed (rc %s) after %ss; retrying alone with %ss" % (name, i, rc, timeout, timeout * 3))
                results[i] = self.coq_eval("%s_%d" % (name, i), bodies[i], requires, timeout * 3)
        return results

    def coq_failing(self, name, case_terms, requires, check_fn="check_case", case_type="case", per_shard=40, timeout=1200, prelude=""):
        """Evaluate `check_fn : case_type -> bool` (a Gallina function of the property's Corr.v) on every case term
        (strings of Coq syntax) with vm_compute, sharded over coqc processes.
        Returns the sorted list of indices of failing cases, or None when the evaluation itself broke
        (recorded as a broken tie)."""
        n = len(case_terms)
        if n == 0:
            return []
        nshard = min(NCPU, max(1, n // per_shard))
        idxs = [list(range(i, n, nshard)) for i in range(nshard)]
        bodies = []
        for ids in idxs:
            b = "Local Open Scope N_scope.\n" + prelude + "\n"
            b += "Definition cases__ : list (%s) := [\n%s].\n" % (case_type, ";\n".join(case_terms[i] for i in ids))
            b += ("Definition failing__ := (fix go (cs : list (%s)) (i : N) : list N := match cs with [] => [] | c :: r => "
                  "if %s c then go r (i + 1) else i :: go r (i + 1) end) cases__ 0.\n" % (case_type, check_fn))
            b += "Eval vm_compute in failing__.\n"
            bodies.append(b)
        results = self.coq_eval_shards(name, bodies, requires, timeout)
        failing = []
        bad = False
        for (rc, out), ids in zip(results, idxs):
            if rc != 0:
                self.tie_broken("correspondence evaluation %s did not compile/finish (model or checker broken)" % name, out[-3000:])
                bad = True
                continue
            m = re.search(r"=\s*\[(.*?)\]\s*:\s*list N", out, re.S)
            if not m:
                self.tie_broken("unparsable correspondence output for %s" % name, out[-1000:])
                bad = True
                continue
            for x in re.findall(r"\d+", m.group(1)):
                failing.append(ids[int(x)])
        self.cov["traces_validated_against_impl"] += n
        return None if bad else sorted(failing)

    # --------------------------------------------------------------- verdicts
    def tie_broken(self, what, detail=""):
        self.broken.append({"kind": "tie", "what": what, "detail": detail})

    def proof_broken(self, what, detail=""):
        self.broken.append({"kind": "proof", "what": what, "detail": detail})

    def violation(self, signature, what, case):
        """a concrete failing input on the implementation"""
        self.violations.append({"signature": signature, "what": what, "case": case})

    def load_known(self):
        p = os.path.join(VERIF, "known_findings.json")
        if not os.path.exists(p):
            return []
        data = json.load(open(p))
        return [k for k in data.get("findings", []) if k.get("property") == self.prop and k.get("status") == "open"]

    def finish(self, level="proof", trusted_base=(), assumptions=(), rule="", explanation=""):
        known = self.load_known()
        known_sigs = {k["signature"]: k for k in known}
        new_viol = []
        hit = {}
        for v in self.violations:
            if v["signature"] in known_sigs:
                hit.setdefault(v["signature"], v)
            else:
                new_viol.append(v)
        for sig, v in hit.items():
            k = known_sigs[sig]
            print("KNOWN-FINDING: property=%s %s [%s]" % (self.prop, k.get("what", v["what"]), sig), flush=True)
            self.known_hits.append(sig)
        rc = 0
        replay_path = None
        if new_viol or self.broken:
            rc = 1
            replay_path = os.path.join(VERIF, "replays", "%s-%s-%d.json" % (self.prop, self.tier, int(time.time())))
            payload = {
                "property": self.prop, "seed": self.seed, "tier": self.tier,
                "violations": new_viol[:20],
                "broken": self.broken,
                "note": ("concrete failing input(s) found on the implementation" if new_viol else
                         "no failing input found; the named theorem / table / correspondence no longer checks"),
            }
            with open(replay_path, "w") as fh:
                json.dump(payload, fh, indent=1, ensure_ascii=False)
            if new_viol:
                print("VIOLATION property=%s replay=%s %s" % (self.prop, replay_path, new_viol[0]["what"][:200].replace("\n", " ")), flush=True)
            else:
                print("VIOLATION property=%s replay=%s %s no-failing-input-found" % (
                    self.prop, replay_path, self.broken[0]["what"][:200].replace("\n", " ")), flush=True)
        self.cov["distinct_nontrivial"] = len(self._distinct) + self._distinct_extra
        self.cov["rule"] = rule or self.cov["rule"]
        self.cov["explanation"] = explanation or self.cov["explanation"]
        self.cov["trusted_base"] = list(trusted_base)
        self.cov["known_findings_reconfirmed"] = self.known_hits
        self.cov["broken"] = [b["what"] for b in self.broken]
        if not self.cov["samples"]:
            self.cov["samples"] = ["<none collected>"]
        ev = {
            "property_id": self.prop, "tier": self.tier, "seed": self.seed, "level": level,
            "coverage": self.cov, "assumptions": list(assumptions) + self.assumptions,
            "wall_s": round(time.time() - self.t0, 2), "violations": len(new_viol) + (1 if self.broken and not new_viol else 0),
            "notes": self.notes,
        }
        # a replay run re-executes recorded cases only: it must not replace the evidence of a real run
        # ... and neither must a run against another checkout (VERIF_REPO, used to try seeded breakages)
        ev_name = "%s.replay.json" % self.prop if self.replay else "%s.json" % self.prop
        ev_dir = os.path.join(CACHE, "run") if (self.replay or alt_repo()) else os.path.join(VERIF, "evidence")
        with open(os.path.join(ev_dir, ev_name), "w") as fh:
            json.dump(ev, fh, indent=1, ensure_ascii=False)
        self.log("done rc=%d obligations=%d discharged=%d evaluations=%d distinct=%d known=%d" % (
            rc, self.cov["obligations"], self.cov["discharged"], self.cov["evaluations"],
            self.cov["distinct_nontrivial"], len(self.known_hits)))
        sys.exit(rc)


def ensure_coq_makefile():
    """(re)generate coq/_CoqProject and Makefile.coq when the set of .v files changed"""
    files = []
    for root, _, names in os.walk(os.path.join(COQ, "theories")):
        for n in names:
            if n.endswith(".v"):
                files.append(os.path.relpath(os.path.join(root, n), COQ))
    files.sort()
    proj = "-Q theories EV\n-arg -w -arg -notation-overridden,-deprecated-hint-without-locality,-deprecated-instance-without-locality\n" + "\n".join(files) + "\n"
    pp = os.path.join(COQ, "_CoqProject")
    old = open(pp).read() if os.path.exists(pp) else None
    mk = os.path.join(COQ, "Makefile.coq")
    if old != proj or not os.path.exists(mk):
        with open(pp, "w") as fh:
            fh.write(proj)
        rc, out, err = sh(["coq_makefile", "-f", "_CoqProject", "-o", "Makefile.coq"], cwd=COQ, timeout=120)
        if rc != 0:
            raise RuntimeError("coq_makefile failed: " + err)


# ---------------------------------------------------------------- Coq term printing helpers
def coq_N(n):
    return "%d" % n


def coq_list(items):
    return "[" + "; ".join(items) + "]"


def coq_text(s):
    """a text as list of code points (N)"""
    return coq_list([str(ord(c)) for c in s])


def coq_opt(x, f=str):
    return "None" if x is None else "(Some %s)" % f(x)


def jlines(s):
    """split harness output into non-empty lines on LF only: str.splitlines() also splits on U+0085, U+2028, U+2029,
    VT, FF ..., which serde_json leaves unescaped inside strings"""
    return [l for l in s.split("\n") if l.strip() != ""]


class Rng:
    """splitmix64, same as the harness crates use"""
    def __init__(self, seed):
        self.s = seed & 0xFFFFFFFFFFFFFFFF

    def next(self):
        self.s = (self.s + 0x9E3779B97F4A7C15) & 0xFFFFFFFFFFFFFFFF
        z = self.s
        z = ((z ^ (z >> 30)) * 0xBF58476D1CE4E5B9) & 0xFFFFFFFFFFFFFFFF
        z = ((z ^ (z >> 27)) * 0x94D049BB133111EB) & 0xFFFFFFFFFFFFFFFF
        return z ^ (z >> 31)

    def below(self, n):
        return self.next() % n if n > 0 else 0

    def pick(self, xs):
        return xs[self.below(len(xs))]
