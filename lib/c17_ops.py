"""Translator for C17: regenerates coq/theories/Gen/C17_Ops.v from /repo's current source.

Read off the source (syntactic shapes only; anything unexpected raises Anchor, which the plugin reports as a broken tie):
  * crates/emmylua_parser/src/kind/lua_type_operator_kind.rs
      - `pub enum LuaTypeBinaryOperator { .. }`  (declaration order = index into PRIORITY)
      - `pub enum LuaTypeUnaryOperator { .. }`
      - `pub const PRIORITY: &[PriorityTable] = &[ PriorityTable { left: L, right: R }, .. ]`
      - `pub const UNARY_TYPE_PRIORITY: i32 = N;`
  * crates/emmylua_parser/src/kind/mod.rs
      - `fn to_type_unary_operator(kind)` and `fn to_parse_binary_operator(kind)` match tables (token kind -> operator)
  * crates/emmylua_code_analysis/src/db_index/type/humanize_type.rs
      - `fn next_level`, `fn max_items`, `fn max_union_items` match tables of RenderLevel, `const DEFAULT_MAX_DEPTH`
"""
import hashlib
import os
import re


class Anchor(Exception):
    pass


def _read(path):
    if not os.path.exists(path):
        raise Anchor("missing file %s" % path)
    return open(path, encoding="utf8").read()


def _strip_line_comments(src):
    return re.sub(r"//[^\n]*", "", src)


def _enum(src, name):
    m = re.search(r"pub\s+enum\s+%s\s*\{(.*?)\}" % name, src, re.S)
    if not m:
        raise Anchor("enum %s not found" % name)
    body = _strip_line_comments(m.group(1))
    items = [x.strip() for x in body.split(",") if x.strip()]
    for it in items:
        if not re.fullmatch(r"[A-Za-z_]\w*", it):
            raise Anchor("enum %s has a variant of an unexpected shape: %r" % (name, it))
    return items


def _fn_match_table(src, fn_name, enum_name):
    """`fn f(kind: ..) -> E { match kind { A | B => E::X, .. _ => E::None, } }` -> list of (token kinds, variant)"""
    m = re.search(r"fn\s+%s\s*\([^)]*\)\s*->\s*%s\s*\{\s*match\s+\w+\s*\{(.*?)\n\s*\}\s*\n\s*\}" % (fn_name, enum_name), src, re.S)
    if not m:
        raise Anchor("fn %s -> %s with a single match not found" % (fn_name, enum_name))
    body = _strip_line_comments(m.group(1))
    rows = []
    default = None
    for arm in body.split(","):
        arm = arm.strip()
        if not arm:
            continue
        mm = re.fullmatch(r"(.+?)=>\s*%s::(\w+)" % enum_name, arm, re.S)
        if not mm:
            raise Anchor("fn %s: arm of unexpected shape: %r" % (fn_name, arm))
        pats = [p.strip() for p in mm.group(1).split("|")]
        if pats == ["_"]:
            default = mm.group(2)
            continue
        kinds = []
        for p in pats:
            pm = re.fullmatch(r"LuaTokenKind::(\w+)", p)
            if not pm:
                raise Anchor("fn %s: pattern of unexpected shape: %r" % (fn_name, p))
            kinds.append(pm.group(1))
        rows.append((kinds, mm.group(2)))
    if default != "None":
        raise Anchor("fn %s: default arm is not ::None" % fn_name)
    return rows


def _level_table(src, fn_name, value_re):
    m = re.search(r"fn\s+%s\s*\(self\)\s*->\s*[\w<>]+\s*\{\s*match\s+self\s*\{(.*?)\n\s*\}\s*\n\s*\}" % fn_name, src, re.S)
    if not m:
        raise Anchor("RenderLevel::%s not found" % fn_name)
    out = {}
    for arm in _strip_line_comments(m.group(1)).split(",\n"):
        arm = arm.strip().rstrip(",")
        if not arm:
            continue
        mm = re.fullmatch(r"RenderLevel::(\w+)(?:\((\w+)\))?\s*=>\s*(%s)" % value_re, arm, re.S)
        if not mm:
            raise Anchor("RenderLevel::%s: arm of unexpected shape: %r" % (fn_name, arm))
        out[mm.group(1)] = mm.group(3).strip()
    return out


LEVELS = ["Documentation", "Simple", "Normal", "Brief", "Minimal"]


def generate(repo):
    p_ops = os.path.join(repo, "crates/emmylua_parser/src/kind/lua_type_operator_kind.rs")
    p_kind = os.path.join(repo, "crates/emmylua_parser/src/kind/mod.rs")
    p_hum = os.path.join(repo, "crates/emmylua_code_analysis/src/db_index/type/humanize_type.rs")
    ops, kind, hum = _read(p_ops), _read(p_kind), _read(p_hum)
    bops = _enum(ops, "LuaTypeBinaryOperator")
    uops = _enum(ops, "LuaTypeUnaryOperator")
    m = re.search(r"pub\s+const\s+PRIORITY\s*:\s*&\[PriorityTable\]\s*=\s*&\[(.*?)\];", ops, re.S)
    if not m:
        raise Anchor("PRIORITY table not found")
    prios = re.findall(r"PriorityTable\s*\{\s*left\s*:\s*(\d+)\s*,\s*right\s*:\s*(\d+)\s*\}", _strip_line_comments(m.group(1)))
    if len(prios) != len(bops):
        raise Anchor("PRIORITY has %d rows for %d binary operators" % (len(prios), len(bops)))
    m = re.search(r"pub\s+const\s+UNARY_TYPE_PRIORITY\s*:\s*i32\s*=\s*(\d+)\s*;", ops)
    if not m:
        raise Anchor("UNARY_TYPE_PRIORITY not found")
    unary_prio = int(m.group(1))
    if not re.search(r"&PRIORITY\[\*self as usize\]", ops):
        raise Anchor("get_priority no longer indexes PRIORITY by the enum discriminant")
    utab = _fn_match_table(kind, "to_type_unary_operator", "LuaTypeUnaryOperator")
    btab = _fn_match_table(kind, "to_parse_binary_operator", "LuaTypeBinaryOperator")
    for rows, names in ((utab, uops), (btab, bops)):
        for _, v in rows:
            if v not in names:
                raise Anchor("operator table mentions unknown variant %s" % v)
    tkinds = []
    for rows in (utab, btab):
        for ks, _ in rows:
            for k in ks:
                if k not in tkinds:
                    tkinds.append(k)
    # render levels
    nxt = _level_table(hum, "next_level", r"RenderLevel::\w+")
    items = _level_table(hum, "max_items", r"\d+|n as usize")
    uitems = _level_table(hum, "max_union_items", r"\d+|n as usize")
    m = re.search(r"const\s+DEFAULT_MAX_DEPTH\s*:\s*u8\s*=\s*(\d+)\s*;", hum)
    if not m:
        raise Anchor("DEFAULT_MAX_DEPTH not found")
    max_depth = int(m.group(1))
    for lv in LEVELS:
        for tab, nm in ((nxt, "next_level"), (items, "max_items"), (uitems, "max_union_items")):
            if lv not in tab:
                raise Anchor("RenderLevel::%s has no arm for %s" % (nm, lv))
        if nxt[lv].split("::")[1] not in LEVELS:
            raise Anchor("next_level(%s) leaves the modelled levels" % lv)
    digest = hashlib.sha256((ops + "\0" + kind + "\0" + hum).encode()).hexdigest()[:16]
    o = []
    o.append("(** GENERATED by /verif/lib/c17_ops.py from /repo — DO NOT EDIT (regenerated on every run of check C17).")
    o.append("    sources: emmylua_parser/src/kind/lua_type_operator_kind.rs (operator enums, PRIORITY, UNARY_TYPE_PRIORITY),")
    o.append("    emmylua_parser/src/kind/mod.rs (to_type_unary_operator, to_parse_binary_operator),")
    o.append("    emmylua_code_analysis/src/db_index/type/humanize_type.rs (RenderLevel tables, DEFAULT_MAX_DEPTH); digest %s *)" % digest)
    o.append("From Coq Require Import List.")
    o.append("Import ListNotations.")
    o.append("")
    o.append("(** [enum LuaTypeBinaryOperator] *)")
    o.append("Inductive tbop : Set :=\n" + "\n".join("| B%s" % b for b in bops) + ".")
    o.append("")
    o.append("(** [enum LuaTypeUnaryOperator] *)")
    o.append("Inductive tuop : Set :=\n" + "\n".join("| U%s" % u for u in uops) + ".")
    o.append("")
    o.append("(** the token kinds the two operator tables mention *)")
    o.append("Inductive opkind : Set :=\n" + "\n".join("| K%s" % k for k in tkinds) + "\n| KOther.")
    o.append("")
    o.append("(** [PRIORITY[op as usize]] as (left, right) *)")
    o.append("Definition priority (o : tbop) : nat * nat :=\n  match o with\n" +
             "\n".join("  | B%s => (%s, %s)" % (b, l, r) for b, (l, r) in zip(bops, prios)) + "\n  end.")
    o.append("Definition prio_left (o : tbop) : nat := fst (priority o).")
    o.append("Definition prio_right (o : tbop) : nat := snd (priority o).")
    o.append("Definition UNARY_TYPE_PRIORITY : nat := %d." % unary_prio)
    o.append("")
    o.append("(** [LuaOpKind::to_type_unary_operator] *)")
    o.append("Definition to_type_unary_operator (k : opkind) : tuop :=\n  match k with\n" +
             "\n".join("  | %s => U%s" % (" | ".join("K" + x for x in ks), v) for ks, v in utab) + "\n  | _ => UNone\n  end.")
    o.append("")
    o.append("(** [LuaOpKind::to_parse_binary_operator] *)")
    o.append("Definition to_parse_binary_operator (k : opkind) : tbop :=\n  match k with\n" +
             "\n".join("  | %s => B%s" % (" | ".join("K" + x for x in ks), v) for ks, v in btab) + "\n  | _ => BNone\n  end.")
    o.append("")
    o.append("(** [RenderLevel] restricted to the levels reachable from Documentation *)")
    o.append("Inductive level : Set :=\n" + "\n".join("| %s" % lv for lv in LEVELS) + ".")
    o.append("Definition next_level (l : level) : level :=\n  match l with\n" +
             "\n".join("  | %s => %s" % (lv, nxt[lv].split("::")[1]) for lv in LEVELS) + "\n  end.")
    o.append("Definition max_items (l : level) : nat :=\n  match l with\n" +
             "\n".join("  | %s => %s" % (lv, items[lv]) for lv in LEVELS) + "\n  end.")
    o.append("Definition max_union_items (l : level) : nat :=\n  match l with\n" +
             "\n".join("  | %s => %s" % (lv, uitems[lv]) for lv in LEVELS) + "\n  end.")
    o.append("Definition DEFAULT_MAX_DEPTH : nat := %d." % max_depth)
    o.append("")
    return "\n".join(o)


def regenerate(repo, out_path):
    """returns (changed, text)"""
    text = generate(repo)
    old = open(out_path, encoding="utf8").read() if os.path.exists(out_path) else None
    if old != text:
        os.makedirs(os.path.dirname(out_path), exist_ok=True)
        with open(out_path, "w", encoding="utf8") as fh:
            fh.write(text)
        return True, text
    return False, text


if __name__ == "__main__":
    import sys
    repo = sys.argv[1] if len(sys.argv) > 1 else "/repo"
    out = os.path.join(os.path.dirname(os.path.dirname(os.path.abspath(__file__))), "coq/theories/Gen/C17_Ops.v")
    print(regenerate(repo, out)[0])
