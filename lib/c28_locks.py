"""C28 translator: lock programs of crates/emmylua_ls/src regenerated from the source (lexical).

For every fn (and every `tokio::spawn(async move { .. })` block) it produces a structured program over
  acq(lock, mode) / rel(lock) / wait / waitmain / unknown / call(f) / seq / alt / loop
from: `let g = X.read().await` / `.write().await` / `.lock().await` (named guard: lives to the end of its block or
`drop(g)`), the same as a temporary (dies at the end of the statement), block ends, if/else, match and select! arms,
loops, and `.await`s of other things (classified: call of an async fn of the crate -> inlined; timers / external IO ->
skip; channel and cancellation waits -> wait; the client-response wait of `send_request` -> waitmain; anything else ->
unknown, which FAILS the obligations).  `return`, `?` are ignored: the Coq theorem covers every prefix of a control
path followed by the release of everything held (C28/Model.v `covered`).

Output: coq/theories/Gen/C28_Locks.v (table of inlined programs) and a JSON summary (per-function event listing
before inlining, used for the hand-reviewed cross-check in corpus/C28/expected_programs.json).
"""
import json
import os
import re
import sys

LOCKS = {
    "analysis": 0,                    # RwLock<EmmyLuaAnalysis>
    "workspace_manager": 1,           # RwLock<WorkspaceManager>
    "diagnostic_tokens": 2,           # Mutex
    "workspace_diagnostic_token": 3,  # Mutex
    "reload_lock": 4,                 # tokio Mutex
    "cancellations": 5,               # Mutex
    "response_manager": 6,            # Mutex
}
LOCK_NAMES = {v: k for k, v in LOCKS.items()}
MODES = {"read": "Read", "write": "Write", "lock": "Write"}   # a Mutex is a lock only ever taken in Write mode
MAIN = "server/lsp_server.rs::LspServer::run"

# awaited callees that are not fns of the crate (reviewed): how they complete
BUILTIN = {
    "sleep": "skip",             # timer
    "timeout": "skip",           # bounded by a timer
    "write_all": "skip", "shutdown": "skip", "wait_with_output": "skip", "flush": "skip",  # external process IO
    "recv": "wait", "send": "wait", "cancelled": "wait", "changed": "wait", "notified": "wait",
    "spawn": "wait",             # `tokio::spawn(fut).await`: join of the spawned task (fut is a table entry of its own)
}
# reviewed exceptions: (enclosing fn, callee, last identifier of the receiver or None) -> class
SPECIAL = {
    ("task", "exec", None): "skip",            # runs one request handler; every handler is its own table entry
    ("recv", "recv", "receiver"): "skip",      # AsyncConnection::recv: client input from the stdin reader thread
    ("handle_shutdown", "recv", "receiver"): "skip",
}


class TranslateError(Exception):
    pass


# ------------------------------------------------------------------------------------------------ tokens
class Tok:
    __slots__ = ("k", "s", "line")

    def __init__(self, k, s, line):
        self.k, self.s, self.line = k, s, line

    def __repr__(self):
        return "%s:%s" % (self.k, self.s)


class Group:
    __slots__ = ("o", "ch", "line")

    def __init__(self, o, ch, line):
        self.o, self.ch, self.line = o, ch, line

    def __repr__(self):
        return "G%s%d" % (self.o, len(self.ch))


TWO = {"=>", "::", "->", "==", "!=", "<=", ">=", "&&", "||", ".."}


def tokenize(src):
    toks = []
    i, n, line = 0, len(src), 1
    while i < n:
        c = src[i]
        if c == "\n":
            line += 1
            i += 1
        elif c.isspace():
            i += 1
        elif src.startswith("//", i):
            j = src.find("\n", i)
            i = n if j < 0 else j
        elif src.startswith("/*", i):
            depth, i = 1, i + 2
            while i < n and depth:
                if src.startswith("/*", i):
                    depth += 1
                    i += 2
                elif src.startswith("*/", i):
                    depth -= 1
                    i += 2
                else:
                    if src[i] == "\n":
                        line += 1
                    i += 1
        elif c == '"' or (c in "br" and re.match(r'(b?r#*"|b")', src[i:i + 8])):
            m = re.match(r'b?r(#*)"', src[i:])
            if m:
                end = '"' + m.group(1)
                j = src.find(end, i + len(m.group(0)))
                j = n if j < 0 else j + len(end)
            else:
                j = i + (2 if c == "b" else 1)
                while j < n and src[j] != '"':
                    j += 2 if src[j] == "\\" else 1
                j += 1
            line += src.count("\n", i, j)
            toks.append(Tok("str", "", line))
            i = j
        elif c == "'":
            m = re.match(r"'(\\.[^']*|[^'\\])'", src[i:])
            if m:
                toks.append(Tok("chr", "", line))
                i += len(m.group(0))
            else:
                m = re.match(r"'[A-Za-z_]\w*", src[i:])
                toks.append(Tok("life", m.group(0) if m else "'", line))
                i += len(m.group(0)) if m else 1
        elif c.isalpha() or c == "_":
            m = re.match(r"\w+", src[i:])
            toks.append(Tok("id", m.group(0), line))
            i += len(m.group(0))
        elif c.isdigit():
            m = re.match(r"\d[\w.]*", src[i:])
            s = m.group(0)
            while s.endswith(".") or (".." in s):   # `0..n`
                s = s[:s.index("..")] if ".." in s else s[:-1]
            toks.append(Tok("num", s, line))
            i += max(1, len(s))
        else:
            if src[i:i + 2] in TWO:
                toks.append(Tok("p", src[i:i + 2], line))
                i += 2
            else:
                toks.append(Tok("p", c, line))
                i += 1
    return toks


def nest(toks):
    close = {"(": ")", "[": "]", "{": "}"}
    root = Group("", [], 0)
    stack = [root]
    for t in toks:
        if t.k == "p" and t.s in close:
            g = Group(t.s, [], t.line)
            stack[-1].ch.append(g)
            stack.append(g)
        elif t.k == "p" and t.s in ")]}":
            if len(stack) == 1 or close[stack[-1].o] != t.s:
                raise TranslateError("unbalanced bracket at line %d" % t.line)
            stack.pop()
        else:
            stack[-1].ch.append(t)
    if len(stack) != 1:
        raise TranslateError("unclosed bracket")
    return root


def is_t(n, s=None, k=None):
    return isinstance(n, Tok) and (s is None or n.s == s) and (k is None or n.k == k)


def is_g(n, o=None):
    return isinstance(n, Group) and (o is None or n.o == o)


# ------------------------------------------------------------------------------------------------ functions
class Fn:
    def __init__(self, file, ty, name, is_async, body, line):
        self.file, self.ty, self.name, self.is_async, self.body, self.line = file, ty, name, is_async, body, line
        self.qual = "%s::%s%s" % (file, (ty + "::") if ty else "", name)
        self.ir = None


def attr_is_test(g):
    flat = []

    def f(x):
        for c in x.ch:
            if isinstance(c, Tok):
                flat.append(c.s)
            else:
                f(c)
    f(g)
    return "cfg" in flat and "test" in flat


def find_fns(nodes, file, ty, out):
    i, n = 0, len(nodes)
    skip_next = False
    while i < n:
        x = nodes[i]
        if is_t(x, "#") and i + 1 < n and is_g(nodes[i + 1], "["):
            if attr_is_test(nodes[i + 1]):
                skip_next = True
            i += 2
            continue
        if is_t(x, "macro_rules"):
            j = i
            while j < n and not is_g(nodes[j]):
                j += 1
            i = j + 1
            continue
        if is_t(x, "fn", "id") and i + 1 < n and is_t(nodes[i + 1], k="id"):
            name = nodes[i + 1].s
            is_async = any(is_t(nodes[k], "async") for k in range(max(0, i - 4), i))
            j = i + 2
            while j < n and not is_g(nodes[j], "("):
                j += 1
            j += 1
            while j < n and not is_g(nodes[j], "{") and not is_t(nodes[j], ";"):
                j += 1
            if j < n and is_g(nodes[j], "{"):
                if not skip_next:
                    out.append(Fn(file, ty, name, is_async, nodes[j], x.line))
                    find_fns(nodes[j].ch, file, ty, out)   # nested items
            skip_next = False
            i = j + 1
            continue
        if isinstance(x, Tok) and x.s in ("impl", "mod", "trait") and x.k == "id":
            j = i + 1
            names = []
            angle = 0
            while j < n and not is_g(nodes[j], "{") and not is_t(nodes[j], ";"):
                t = nodes[j]
                if is_t(t, "<"):
                    angle += 1
                elif is_t(t, ">"):
                    angle -= 1
                elif is_t(t, "for") and x.s == "impl":
                    names = []
                elif is_t(t, "where"):
                    break
                elif is_t(t, k="id") and angle == 0:
                    names.append(t.s)
                j += 1
            while j < n and not is_g(nodes[j], "{") and not is_t(nodes[j], ";"):
                j += 1
            if j < n and is_g(nodes[j], "{"):
                if not skip_next:
                    nty = ty if x.s == "mod" else (names[-1] if names else ty)
                    find_fns(nodes[j].ch, file, nty, out)
            skip_next = False
            i = j + 1
            continue
        if is_t(x, ";") or is_g(x, "{"):
            skip_next = False
        i += 1


# ------------------------------------------------------------------------------------------------ bodies -> IR
CHAIN_TOK = {".", "::", "?", "&", "*", "self", "mut"}


class Walker:
    def __init__(self, fn, spawns):
        self.fn = fn
        self.spawns = spawns          # list collecting (name, ir) of spawned blocks
        self.scopes = []              # per block: dict(guards=[(name, lock)], temps=[lock], loop=bool)
        self.nspawn = 0
        self.in_cond = False
        self.async_ctx = fn.is_async  # false in a sync fn and in a spawn_blocking closure (blocking is fine there)

    # -- helpers
    def unknown(self, out, what, line):
        out.append(("unknown", "%s (line %d)" % (what, line)))

    def live_guard(self, name):
        for sc in reversed(self.scopes):
            for g in reversed(sc["guards"]):
                if g[0] == name and g[2][0]:
                    return g
        return None

    def block(self, grp, out, loop=False):
        """translate a `{..}` block with its own guard scope"""
        self.scopes.append({"guards": [], "temps": [], "loop": loop})
        self.walk(grp.ch, out, True)
        sc = self.scopes.pop()
        for lockid in reversed(sc["temps"]):
            out.append(("rel", lockid))
        for g in reversed(sc["guards"]):
            out.append(("rel", g[1]))

    def save_live(self):
        return [(g, g[2][0]) for sc in self.scopes for g in sc["guards"]]

    def restore_live(self, saved):
        # a `drop(g)` inside one branch does not make g dead for the sibling branches / the code after the
        # branch (may-hold semantics; the release emitted at the scope end is a no-op when g was dropped)
        for g, v in saved:
            g[2][0] = v

    def sub(self, grp, loop=False):
        o = []
        saved = self.save_live()
        self.block(grp, o, loop)
        self.restore_live(saved)
        return o

    def end_stmt(self, out):
        sc = self.scopes[-1]
        for lockid in reversed(sc["temps"]):
            out.append(("rel", lockid))
        sc["temps"] = []

    # -- the main sequential walk
    def walk(self, nodes, out, block_level):
        i, n = 0, len(nodes)
        stmt_start = 0
        while i < n:
            x = nodes[i]
            if isinstance(x, Tok):
                s = x.s
                if block_level and s == ";" and x.k == "p":
                    self.end_stmt(out)
                    stmt_start = i + 1
                    i += 1
                    continue
                if x.k == "id" and s == "fn" and i + 1 < n and is_t(nodes[i + 1], k="id"):
                    j = i
                    while j < n and not is_g(nodes[j], "{"):
                        j += 1
                    i = j + 1
                    stmt_start = i
                    continue
                if x.k == "id" and s == "if":
                    i = self.parse_if(nodes, i, out)
                    if block_level and self.stmt_is_blocklike(nodes, stmt_start):
                        self.end_stmt(out)
                        stmt_start = i
                    continue
                if x.k == "id" and s == "match":
                    i = self.parse_match(nodes, i, out)
                    if block_level and self.stmt_is_blocklike(nodes, stmt_start):
                        self.end_stmt(out)
                        stmt_start = i
                    continue
                if x.k == "id" and s in ("while", "for", "loop") and not (i > 0 and is_t(nodes[i - 1], "'")):
                    if s == "for" and i > 0 and is_t(nodes[i - 1], k="id") and nodes[i - 1].s == "impl":
                        i += 1
                        continue
                    i = self.parse_loop(nodes, i, out)
                    if block_level and self.stmt_is_blocklike(nodes, stmt_start):
                        self.end_stmt(out)
                        stmt_start = i
                    continue
                if x.k == "id" and s == "else" and i + 1 < n and is_g(nodes[i + 1], "{"):   # let .. else { .. }
                    out.append(("alt", [self.sub(nodes[i + 1]), []]))
                    i += 2
                    continue
                if x.k == "id" and s in ("break", "continue"):
                    self.check_break(out, x.line)
                    i += 1
                    continue
                if x.k == "id" and s == "drop" and i + 1 < n and is_g(nodes[i + 1], "(") \
                        and len(nodes[i + 1].ch) == 1 and is_t(nodes[i + 1].ch[0], k="id") \
                        and not (i > 0 and is_t(nodes[i - 1], ".")):
                    g = self.live_guard(nodes[i + 1].ch[0].s)
                    if g:
                        out.append(("rel", g[1]))
                        g[2][0] = False
                    i += 2
                    continue
                if x.k == "id" and i + 2 < n and is_t(nodes[i + 1], "!") and is_g(nodes[i + 2]):
                    # macro invocation
                    if s == "select":
                        self.parse_select(nodes[i + 2], out, x.line)
                    elif s == "dispatch_notification":
                        self.parse_dispatch_notification(nodes[i + 2], out, x.line)
                    elif s == "dispatch_request":
                        out.append(("call", "task", None, x.line))
                    else:
                        self.walk(nodes[i + 2].ch, out, False)
                    i += 3
                    if block_level and nodes[i - 1].o == "{" and i - 3 == self.skip_path_back(nodes, i - 3, stmt_start):
                        self.end_stmt(out)
                        stmt_start = i
                    continue
                if x.k == "id" and s == "async" and self.async_block_at(nodes, i) is not None:
                    j = self.async_block_at(nodes, i)
                    o = self.sub(nodes[j])
                    if any_effect(o):
                        self.unknown(out, "async block (not spawned) containing lock operations", x.line)
                    i = j + 1
                    continue
                if x.k == "id" and s in ("recv", "blocking_recv", "blocking_read", "blocking_write", "blocking_lock") \
                        and self.async_ctx and i > 0 and is_t(nodes[i - 1], ".") and i + 1 < n and is_g(nodes[i + 1], "(") \
                        and not nodes[i + 1].ch \
                        and ((i + 2 >= n and self.in_cond)
                             or (i + 2 < n and (is_t(nodes[i + 2], ";") or is_t(nodes[i + 2], "?") or is_g(nodes[i + 2], "{")
                                                or (is_t(nodes[i + 2], ".") and not (i + 3 < n and is_t(nodes[i + 3], "await")))))):
                    # a blocking receive / lock that is not awaited, used as a value here (not passed on as a future):
                    # it parks the runtime worker that runs this task
                    self.unknown(out, "blocking `.%s()` inside an async task (parks a runtime worker thread)" % s, x.line)
                    i += 2
                    continue
                if x.k == "id" and s == "await" and i > 0 and is_t(nodes[i - 1], "."):
                    self.on_await(nodes, i, out, block_level, stmt_start)
                    i += 1
                    continue
                i += 1
                continue
            # groups
            g = x
            if g.o == "{":
                prev = nodes[i - 1] if i > 0 else None
                if is_t(prev, "|") or is_t(prev, "||") or (is_t(prev, "move") and i > 1 and (is_t(nodes[i - 2], "|") or is_t(nodes[i - 2], "||"))):
                    o = self.sub(g)        # closure body: cannot await
                    if any_effect(o):
                        self.unknown(out, "closure containing lock operations", g.line)
                elif prev is not None and (is_t(prev, k="id") and prev.s not in ("unsafe", "else", "return", "in") or is_t(prev, ">")) \
                        and not (block_level and i == stmt_start):
                    self.walk(g.ch, out, False)      # struct literal / pattern
                else:
                    tail_check = self.tail_acquire(g)
                    if tail_check and self.scopes and len(self.scopes) >= 1 and not (block_level and False):
                        self.unknown(out, "lock guard returned from a block as its tail expression", g.line)
                    self.block(g, out)
                    if block_level and i == stmt_start:
                        self.end_stmt(out)
                        stmt_start = i + 1
            else:
                spawn = g.o == "(" and i > 0 and is_t(nodes[i - 1], k="id") and nodes[i - 1].s in ("spawn", "spawn_blocking")
                if spawn and self.spawn_block(g) is not None:
                    blk = self.spawn_block(g)
                    self.nspawn += 1
                    w = Walker(self.fn, self.spawns)
                    w.async_ctx = nodes[i - 1].s == "spawn" and is_t(g.ch[0], "async")
                    w.nspawn = self.nspawn * 100
                    o = []
                    w.scopes = []
                    w.block(blk, o)
                    self.spawns.append(("%s#spawn%d" % (self.fn.qual, self.nspawn), o, blk.line))
                    self.nspawn = max(self.nspawn, w.nspawn // 100)
                else:
                    saved, self.in_cond = self.in_cond, False
                    self.walk(g.ch, out, False)
                    self.in_cond = saved
            i += 1
        if block_level:
            pass

    def skip_path_back(self, nodes, i, stmt_start):
        """index of the first token of the path `a::b::name` ending at nodes[i]"""
        j = i
        while j - 2 >= stmt_start and is_t(nodes[j - 1], "::") and is_t(nodes[j - 2], k="id"):
            j -= 2
        return j if j == stmt_start else -1

    def stmt_is_blocklike(self, nodes, stmt_start):
        return stmt_start < len(nodes) and is_t(nodes[stmt_start], k="id") and nodes[stmt_start].s in ("if", "match", "while", "for", "loop")

    def async_block_at(self, nodes, i):
        j = i + 1
        if j < len(nodes) and is_t(nodes[j], "move"):
            j += 1
        if j < len(nodes) and is_g(nodes[j], "{"):
            return j
        return None

    def spawn_block(self, g):
        ch = g.ch
        if ch and is_t(ch[0], "async"):
            j = self.async_block_at(ch, 0)
            if j is not None and j == len(ch) - 1:
                return ch[j]
        if ch and (is_t(ch[0], "move") or is_t(ch[0], "||") or is_t(ch[0], "|")):   # spawn_blocking(move || { .. })
            for c in ch:
                if is_g(c, "{"):
                    return c
        return None

    def tail_acquire(self, g):
        ch = g.ch
        return len(ch) >= 5 and is_t(ch[-1], "await") and is_t(ch[-2], ".") and is_g(ch[-3], "(") \
            and is_t(ch[-4], k="id") and ch[-4].s in MODES and not ch[-3].ch and len(self.scopes) > 0

    def check_break(self, out, line):
        for sc in reversed(self.scopes):
            if any(g[2][0] for g in sc["guards"]) or sc["temps"]:
                self.unknown(out, "break/continue while a guard of the loop body is held", line)
                return
            if sc["loop"]:
                return

    # -- control structures
    def cond_and_block(self, nodes, i, out):
        """walk the nodes after nodes[i] up to the first `{` group at this level; returns its index"""
        j = i + 1
        while j < len(nodes) and not is_g(nodes[j], "{"):
            j += 1
        if j >= len(nodes):
            raise TranslateError("%s: no block after `%s` at line %d" % (self.fn.qual, nodes[i].s, nodes[i].line))
        saved, self.in_cond = self.in_cond, True
        self.walk(nodes[i + 1:j], out, False)
        self.in_cond = saved
        return j

    def parse_if(self, nodes, i, out):
        if not any(is_g(x, "{") for x in nodes[i + 1:]):
            return i + 1          # a match-arm guard inside a macro such as matches!(x, P if c)
        j = self.cond_and_block(nodes, i, out)
        branches = [self.sub(nodes[j])]
        j += 1
        if j < len(nodes) and is_t(nodes[j], "else"):
            if j + 1 < len(nodes) and is_t(nodes[j + 1], "if"):
                o = []
                j = self.parse_if(nodes, j + 1, o)
                branches.append(o)
            elif j + 1 < len(nodes) and is_g(nodes[j + 1], "{"):
                branches.append(self.sub(nodes[j + 1]))
                j += 2
            else:
                raise TranslateError("%s: malformed else at line %d" % (self.fn.qual, nodes[j].line))
        else:
            branches.append([])
        out.append(("alt", branches))
        return j

    def arms(self, grp, is_select):
        """split a match / select! body into (head nodes, body nodes or block)"""
        res = []
        ch = grp.ch
        i, n = 0, len(ch)
        while i < n:
            head = []
            while i < n and not is_t(ch[i], "=>"):
                head.append(ch[i])
                i += 1
            if i >= n:
                if head and not is_select and any(not is_t(h, ",") for h in head):
                    raise TranslateError("%s: match arm without `=>` near line %d" % (self.fn.qual, grp.line))
                break
            i += 1
            if i < n and is_g(ch[i], "{") and (i + 1 >= n or is_t(ch[i + 1], ",") or not is_t(ch[i + 1], ".")):
                res.append((head, ch[i]))
                i += 1
                if i < n and is_t(ch[i], ","):
                    i += 1
            else:
                body = []
                while i < n and not is_t(ch[i], ","):
                    body.append(ch[i])
                    i += 1
                i += 1
                res.append((head, body))
        return res

    def arm_ir(self, body):
        if isinstance(body, Group):
            return self.sub(body)
        o = []
        saved = self.save_live()
        self.scopes.append({"guards": [], "temps": [], "loop": False})
        self.walk(body, o, False)
        sc = self.scopes.pop()
        for lockid in reversed(sc["temps"]):
            o.append(("rel", lockid))
        self.restore_live(saved)
        return o

    def parse_match(self, nodes, i, out):
        j = self.cond_and_block(nodes, i, out)
        out.append(("alt", [self.arm_ir(b) for _, b in self.arms(nodes[j], False)] or [[]]))
        return j + 1

    def parse_select(self, grp, out, line):
        arms = self.arms(grp, True)
        if not arms:
            raise TranslateError("%s: select! without arms at line %d" % (self.fn.qual, line))
        timed, mainwait = False, False
        for head, _ in arms:
            ids = [t.s for t in flatten(head) if t.k == "id"]
            if "sleep" in ids or "timeout" in ids:
                timed = True
            k = [idx for idx, t in enumerate(head) if is_t(t, "=")]
            fut = head[k[0] + 1:] if k else head
            if self.fn.name == "send_request" and len(fut) == 1 and is_t(fut[0], "receiver"):
                mainwait = True
            self.walk(fut, out, False)
        if mainwait:
            out.append(("waitmain", "client response (select! in send_request, line %d)" % line))
        elif not timed:
            out.append(("wait", "select! without a timer arm (line %d)" % line))
        out.append(("alt", [self.arm_ir(b) for _, b in arms]))

    def parse_dispatch_notification(self, grp, out, line):
        calls = [("call", "handle_cancel", None, line)]
        found = False
        for c in grp.ch:
            if is_g(c, "{"):
                ch = c.ch
                for k in range(len(ch) - 2):
                    if is_t(ch[k], "sync") and is_t(ch[k + 1], ":") and is_g(ch[k + 2], "{"):
                        found = True
                        ent = ch[k + 2].ch
                        for m in range(len(ent) - 1):
                            if is_t(ent[m], "=>") and is_t(ent[m + 1], k="id"):
                                calls.append(("call", ent[m + 1].s, None, ent[m + 1].line))
        if not found:
            raise TranslateError("dispatch_notification!: `sync: {..}` list not found (line %d)" % line)
        out.append(("alt", [[c] for c in calls]))

    def parse_loop(self, nodes, i, out):
        kw = nodes[i].s
        cond = []
        j = self.cond_and_block(nodes, i, cond)
        body = self.sub(nodes[j], loop=True)
        if kw == "while":
            out.extend(cond)
            out.append(("loop", body + cond))
        else:
            out.extend(cond)
            out.append(("loop", body))
        return j + 1

    # -- `.await`
    def on_await(self, nodes, i, out, block_level, stmt_start):
        """nodes[i] is `await`, nodes[i-1] is `.`"""
        line = nodes[i].line
        k = i - 2
        if k >= 1 and is_g(nodes[k], "(") and is_t(nodes[k - 1], ">"):
            # turbofish: name::<T, ..>(args).await  -> drop the `::<..>` part
            j, depth = k - 1, 0
            while j >= 0:
                if is_t(nodes[j], ">"):
                    depth += 1
                elif is_t(nodes[j], "<"):
                    depth -= 1
                    if depth == 0:
                        break
                j -= 1
            if j >= 2 and is_t(nodes[j - 1], "::") and is_t(nodes[j - 2], k="id"):
                nodes = nodes[:j - 1] + nodes[k:]
                i -= (k - (j - 1))
                k = i - 2
        if k >= 1 and is_g(nodes[k], "(") and is_t(nodes[k - 1], k="id"):
            callee = nodes[k - 1].s
            # lock acquisition?
            if callee in MODES and not nodes[k].ch and k >= 3 and is_t(nodes[k - 2], "."):
                r = k - 3
                recv = nodes[r]
                if is_g(recv, "(") and r >= 1 and is_t(nodes[r - 1], k="id"):
                    lname = nodes[r - 1].s
                elif is_t(recv, k="id"):
                    lname = recv.s
                else:
                    lname = None
                if lname not in LOCKS:
                    # `.read()/.write()/.lock()` awaited on something that is not a known lock
                    self.unknown(out, "`.%s().await` on unrecognised lock `%s`" % (callee, lname), line)
                    return
                lockid = LOCKS[lname]
                out.append(("acq", lockid, MODES[callee], line))
                # named guard?
                cs = r
                while cs - 1 >= stmt_start and (is_g(nodes[cs - 1], "(") or (isinstance(nodes[cs - 1], Tok) and (nodes[cs - 1].k == "id" or nodes[cs - 1].s in CHAIN_TOK))):
                    if is_t(nodes[cs - 1], "=") or is_t(nodes[cs - 1], "let"):
                        break
                    cs -= 1
                named = None
                if block_level and i + 1 < len(nodes) and is_t(nodes[i + 1], ";") and is_t(nodes[stmt_start], "let") \
                        and cs - 1 > stmt_start and is_t(nodes[cs - 1], "="):
                    pat = nodes[stmt_start + 1:cs - 1]
                    if pat and is_t(pat[0], "mut"):
                        pat = pat[1:]
                    if pat and is_t(pat[0], k="id") and (len(pat) == 1 or is_t(pat[1], ":")):
                        named = pat[0].s
                if named is not None and named != "_":
                    self.scopes[-1]["guards"].append((named, lockid, [True]))
                elif named == "_":
                    out.append(("rel", lockid))
                else:
                    # temporary: dies at the end of the enclosing statement
                    self.scopes[-1]["temps"].append(lockid)
                return
            # receiver identifier (for the reviewed exceptions)
            rid = None
            if k >= 3 and is_t(nodes[k - 2], "."):
                r = nodes[k - 3]
                if is_t(r, k="id"):
                    rid = r.s
                elif is_g(r, "(") and k >= 4 and is_t(nodes[k - 4], k="id"):
                    rid = nodes[k - 4].s
            qual = None
            if k >= 3 and is_t(nodes[k - 2], "::") and is_t(nodes[k - 3], k="id"):
                qual = nodes[k - 3].s
            for key in ((self.fn.name, callee, rid), (self.fn.name, callee, None)):
                if key in SPECIAL:
                    if SPECIAL[key] == "skip":
                        return
            if rid == "connection" and callee == "recv":
                out.append(("call", "recv", "AsyncConnection", line))
                return
            if callee in BUILTIN:
                if BUILTIN[callee] == "wait":
                    out.append(("wait", "%s().await (line %d)" % (callee, line)))
                return
            out.append(("call", callee, qual, line))
            return
        self.unknown(out, "`.await` on an expression that is not a call", line)


def flatten(nodes):
    for x in nodes:
        if isinstance(x, Tok):
            yield x
        else:
            yield from flatten(x.ch)


def any_effect(ir):
    for it in ir:
        if it[0] in ("acq", "wait", "waitmain", "unknown", "call"):
            return True
        if it[0] == "alt" and any(any_effect(b) for b in it[1]):
            return True
        if it[0] == "loop" and any_effect(it[1]):
            return True
    return False


# ------------------------------------------------------------------------------------------------ whole crate
def translate(repo):
    src_root = os.path.join(repo, "crates", "emmylua_ls", "src")
    if not os.path.isdir(src_root):
        raise TranslateError("anchor missing: %s" % src_root)
    fns = []
    for root, dirs, names in os.walk(src_root):
        dirs.sort()
        rel_dir = os.path.relpath(root, src_root)
        parts = rel_dir.split(os.sep)
        if any(p in ("test", "test_lib", "tests") for p in parts):
            continue
        if parts[0] not in ("handlers", "context", "server", "util") and rel_dir != ".":
            continue
        for nme in sorted(names):
            if not nme.endswith(".rs") or nme in ("tests.rs", "test.rs", "verif_lock.rs"):
                continue      # verif_lock.rs: the cfg-gated tracing wrappers around the tokio locks themselves
            path = os.path.join(root, nme)
            rel = os.path.relpath(path, src_root).replace(os.sep, "/")
            tree = nest(tokenize(open(path, encoding="utf8").read()))
            find_fns(tree.ch, rel, None, fns)
    programs = {}     # qual -> ir (before inlining)
    lines = {}
    hashes = {}       # qual -> hash of the fn body tokens (to tell a source change from a translator change)
    for fn in fns:
        spawns = []
        w = Walker(fn, spawns)
        o = []
        w.block(fn.body, o)
        fn.ir = o
        import hashlib
        hashes[fn.qual] = hashlib.sha1(" ".join(t.s for t in flatten(fn.body.ch)).encode()).hexdigest()[:16]
        if fn.is_async:
            if fn.qual in programs:
                raise TranslateError("duplicate function %s" % fn.qual)
            programs[fn.qual] = o
            lines[fn.qual] = fn.line
        elif any_effect(o):
            programs[fn.qual] = [("unknown", "lock operation in a non-async fn (line %d)" % fn.line)]
            lines[fn.qual] = fn.line
        for name, ir, line in spawns:
            programs[name] = ir
            lines[name] = line
    by_name = {}
    for fn in fns:
        if fn.is_async:
            by_name.setdefault(fn.name, []).append(fn)
    # anchors
    if MAIN not in programs:
        raise TranslateError("anchor missing: main loop %s" % MAIN)
    for a in ("handlers/notification_handler.rs::on_notification_handler", "context/client.rs::ClientProxy::send_request",
              "context/mod.rs::ServerContext::task"):
        if a not in programs:
            raise TranslateError("anchor missing: %s" % a)
    if not contains(programs["context/client.rs::ClientProxy::send_request"], "waitmain"):
        raise TranslateError("anchor missing: `select! { response = receiver => .. }` in ClientProxy::send_request")
    if not any_effect(programs["handlers/notification_handler.rs::on_notification_handler"]):
        raise TranslateError("anchor missing: dispatch_notification! in on_notification_handler")

    def inline(ir, stack):
        res = []
        for it in ir:
            if it[0] == "call":
                _, name, qual, line = it
                cands = by_name.get(name, [])
                if qual:
                    q = [f for f in cands if f.ty == qual]
                    if q:
                        cands = q
                if not cands:
                    res.append(("unknown", "`%s(..).await`: not a lock, not an async fn of the crate, not a reviewed builtin (line %d)" % (name, line)))
                    continue
                alts = []
                for f in cands:
                    if f.qual in stack:
                        alts.append([("unknown", "recursive call of %s (line %d)" % (f.qual, line))])
                    else:
                        alts.append([("frame", inline(f.ir, stack + [f.qual]), f.qual)])
                if len(alts) == 1:
                    res.extend(alts[0])
                else:
                    res.append(("alt", alts))
            elif it[0] == "alt":
                res.append(("alt", [inline(b, stack) for b in it[1]]))
            elif it[0] == "loop":
                res.append(("loop", inline(it[1], stack)))
            else:
                res.append(it)
        return res

    table, framed = {}, {}
    for q in sorted(programs):
        base = q.split("#")[0]
        framed[q] = inline(programs[q], [base])
        table[q] = simplify(unframe(framed[q]))
    return {"programs": programs, "table": table, "framed": framed, "lines": lines, "hashes": hashes}


def unframe(ir):
    res = []
    for it in ir:
        if it[0] == "frame":
            res.extend(unframe(it[1]))
        elif it[0] == "alt":
            res.append(("alt", [unframe(b) for b in it[1]]))
        elif it[0] == "loop":
            res.append(("loop", unframe(it[1])))
        else:
            res.append(it)
    return res


# ------------------------------------------------------------------------------------------------ runtime traces
class Machine:
    """the structured program as a graph: is a runtime lock trace (of one task) a prefix of one of its control paths?
    An inlined callee (frame) may return early at any point: the guards it acquired are released and the caller goes on."""

    def __init__(self, ir):
        self.kind, self.arg, self.nxt, self.abort = [], [], [], []
        end = self.node("end", None, [])
        start = self.build_frame(ir, end, None)
        self.start = start

    def node(self, kind, arg, nxt, abort=None):
        self.kind.append(kind)
        self.arg.append(arg)
        self.nxt.append(list(nxt))
        self.abort.append(abort)
        return len(self.kind) - 1

    def build_frame(self, body, after, outer_abort):
        pop = self.node("pop", None, [after])
        ab = self.node("abort", None, [pop])            # release what the frame acquired (any order), then leave
        first = self.build(body, pop, ab)
        return self.node("push", None, [first], ab)

    def build(self, items, after, ab):
        nxt = after
        for it in reversed(items):
            k = it[0]
            if k == "acq":
                nxt = self.node("acq", (it[1], it[2]), [nxt], ab)
            elif k == "rel":
                nxt = self.node("rel", it[1], [nxt], ab)
            elif k == "alt":
                nxt = self.node("eps", None, [self.build(b, nxt, ab) for b in it[1]] or [nxt], ab)
            elif k == "loop":
                head = self.node("eps", None, [nxt], ab)
                body = self.build(it[1], head, ab)
                self.nxt[head].append(body)
                nxt = head
            elif k == "frame":
                nxt = self.build_frame(it[1], nxt, ab)
            else:                                           # wait / waitmain / unknown / skip: no lock event
                nxt = self.node("eps", None, [nxt], ab)
        return nxt

    def accepts(self, trace, limit=3_000_000):
        n = len(trace)
        init = (self.start, 0, frozenset(), ())
        seen = {init}
        todo = [init]
        best = 0
        while todo:
            node, pos, held, stack = todo.pop()
            if pos > best:
                best = pos
            if pos == n:
                return True, n
            if len(seen) > limit:
                return None, best
            k = self.kind[node]
            succ = []
            ev = trace[pos]
            if k == "acq":
                l, m = self.arg[node]
                if ev[0] == "acq" and ev[1] == l and ev[2] == m and l not in held:
                    succ.append((self.nxt[node][0], pos + 1, held | {l}, stack))
            elif k == "rel":
                l = self.arg[node]
                if l in held:
                    if ev[0] == "rel" and ev[1] == l:
                        succ.append((self.nxt[node][0], pos + 1, held - {l}, stack))
                else:
                    succ.append((self.nxt[node][0], pos, held, stack))
            elif k == "eps":
                for x in self.nxt[node]:
                    succ.append((x, pos, held, stack))
            elif k == "push":
                succ.append((self.nxt[node][0], pos, held, stack + (held,)))
            elif k == "pop":
                succ.append((self.nxt[node][0], pos, held, stack[:-1]))
            elif k == "abort":
                mine = held - stack[-1]
                if not mine:
                    succ.append((self.nxt[node][0], pos, held, stack))
                elif ev[0] == "rel" and ev[1] in mine:
                    succ.append((node, pos + 1, held - {ev[1]}, stack))
            elif k == "end":
                pass
            # early return of the enclosing frame (`return`, `?`, the future dropped)
            a = self.abort[node]
            if a is not None and k != "push":
                succ.append((a, pos, held, stack))
            for st in succ:
                if st not in seen:
                    seen.add(st)
                    todo.append(st)
        return False, best


def check_traces(res, events, max_len=400):
    """events: [(task, kind, lockname)] in global order.  Returns (tasks checked, events, unexplained: [(task, trace, best)])"""
    per = {}
    for task, kind, lock in events:
        if lock not in LOCKS:
            per.setdefault(task, []).append(("bad", lock, kind))
            continue
        if kind == "rel":
            per.setdefault(task, []).append(("rel", LOCKS[lock]))
        else:
            per.setdefault(task, []).append(("acq", LOCKS[lock], MODES[kind]))
    machines = {}
    cands = [q for q in sorted(res["framed"]) if any_effect(res["table"][q])]
    bad, nev = [], 0
    explained_by = {}
    for task, tr in per.items():
        tr = tr[:max_len]
        nev += len(tr)
        if any(e[0] == "bad" for e in tr):
            bad.append((task, tr, 0, "unknown lock name"))
            continue
        first = tr[0]
        ok, best_all = False, 0
        order = [MAIN] + [q for q in cands if q != MAIN] if task == "main" else cands
        for q in order:
            if q not in machines:
                machines[q] = Machine(res["framed"][q])
            r, best = machines[q].accepts(tr)
            best_all = max(best_all, best)
            if r:
                ok = True
                explained_by[q] = explained_by.get(q, 0) + 1
                break
        if not ok:
            bad.append((task, tr, best_all, "no program of the table has this trace as a path"))
    return len(per), nev, bad, explained_by


def contains(ir, kind):
    for it in ir:
        if it[0] == kind:
            return True
        if it[0] == "alt" and any(contains(b, kind) for b in it[1]):
            return True
        if it[0] == "loop" and contains(it[1], kind):
            return True
    return False


def simplify(ir):
    """drop parts without any effect (keeps the table small); semantics preserving for the analysis"""
    res = []
    for it in ir:
        if it[0] == "alt":
            bs = [simplify(b) for b in it[1]]
            if not any(bs):
                continue
            uniq = []
            for b in bs:
                if b not in uniq:
                    uniq.append(b)
            if len(uniq) == 1 and False:
                res.extend(uniq[0])
            else:
                res.append(("alt", uniq))
        elif it[0] == "loop":
            b = simplify(it[1])
            if b:
                res.append(("loop", b))
        else:
            res.append(it)
    # a rel of a lock that cannot be held here is kept: the Coq analysis treats it as a no-op
    return res


# ------------------------------------------------------------------------------------------------ output
def events(ir):
    """flat, readable event listing of a program (before inlining), for the hand-reviewed cross-check"""
    out = []
    for it in ir:
        if it[0] == "acq":
            out.append("acq %s %s" % (LOCK_NAMES[it[1]], it[2]))
        elif it[0] == "rel":
            out.append("rel %s" % LOCK_NAMES[it[1]])
        elif it[0] == "wait":
            out.append("wait")
        elif it[0] == "waitmain":
            out.append("waitmain")
        elif it[0] == "unknown":
            out.append("unknown")
        elif it[0] == "call":
            out.append("call %s" % it[1])
        elif it[0] == "alt":
            bs = [events(b) for b in it[1]]
            if any(bs):
                out.append({"alt": bs})
        elif it[0] == "loop":
            b = events(it[1])
            if b:
                out.append({"loop": b})
    # rel of something never acquired in this listing is noise from scope ends of guards dropped earlier: keep (faithful)
    return out


def coq_stmt(ir):
    def one(it):
        if it[0] == "acq":
            return "SAcq %d %s" % (it[1], it[2])
        if it[0] == "rel":
            return "SRel %d" % it[1]
        if it[0] == "wait":
            return "SWait"
        if it[0] == "waitmain":
            return "SWaitMain"
        if it[0] == "unknown":
            return "SUnknown"
        if it[0] == "alt":
            bs = [coq_stmt(b) for b in it[1]]
            r = bs[-1]
            for b in reversed(bs[:-1]):
                r = "SAlt (%s) (%s)" % (b, r)
            return r
        if it[0] == "loop":
            return "SLoop (%s)" % coq_stmt(it[1])
        raise TranslateError("cannot print %r" % (it,))
    if not ir:
        return "SSkip"
    parts = [one(it) for it in ir]
    r = parts[-1]
    for p in reversed(parts[:-1]):
        r = "SSeq (%s) (%s)" % (p, r)
    return r


def notes(ir, acc):
    for it in ir:
        if it[0] in ("unknown", "wait", "waitmain"):
            acc.append("%s: %s" % (it[0], it[1]))
        elif it[0] == "alt":
            for b in it[1]:
                notes(b, acc)
        elif it[0] == "loop":
            notes(it[1], acc)
    return acc


def write_coq(res, path, repo):
    tbl = res["table"]
    lines = ["(* GENERATED by lib/c28_locks.py from %s/crates/emmylua_ls/src -- do not edit; regenerated on every run of bin/check C28 *)" % repo,
             "From Coq Require Import List String.", "From EV Require Import Base.LocksLTS C28.Model.",
             "Import ListNotations.", "Local Open Scope string_scope.", ""]
    lines.append("(* lock numbering: %s ; a Mutex is taken in Write mode *)" % ", ".join("%d = %s" % (v, k) for k, v in sorted(LOCKS.items(), key=lambda kv: kv[1])))
    lines.append("Definition lock_names : list (nat * string) := [%s]." % "; ".join('(%d, "%s")' % (v, k) for k, v in sorted(LOCKS.items(), key=lambda kv: kv[1])))
    lines.append('Definition main_name : string := "%s".' % MAIN)
    lines.append("")
    lines.append("Definition programs : table := [")
    ents = []
    for q in sorted(tbl):
        if not any_effect(tbl[q]) and q != MAIN:
            continue      # functions that never lock or wait
        cm = notes(tbl[q], [])
        ents.append('  (* line %d%s *)\n  ("%s", %s)' % (res["lines"].get(q, 0), ("; " + "; ".join(cm)[:400].replace("*)", "* )")) if cm else "", q, coq_stmt(tbl[q])))
    lines.append(";\n".join(ents))
    lines.append("].")
    lines.append("")
    txt = "\n".join(lines)
    old = open(path).read() if os.path.exists(path) else None
    if old != txt:
        os.makedirs(os.path.dirname(path), exist_ok=True)
        with open(path, "w") as fh:
            fh.write(txt)
    return len(ents)


# python re-implementation of the may-hold analysis (C28/Model.v `ana`), for diagnostics only
def ana(ir, M, mainlocks, edges, problems):
    M = list(M)
    for it in ir:
        if it[0] == "acq":
            for h in M:
                edges.append((h, it[1], it[3]))
            M = [it[1]] + M
        elif it[0] == "rel":
            M = [x for x in M if x != it[1]]
        elif it[0] == "wait":
            if M:
                problems.append("wait-holding:%s: %s" % (",".join(LOCK_NAMES[x] for x in sorted(set(M))), it[1]))
        elif it[0] == "waitmain":
            for h in M:
                for l in mainlocks:
                    edges.append((h, l, -1))
        elif it[0] == "unknown":
            problems.append("unknown: %s" % it[1])
        elif it[0] == "alt":
            outs = []
            for b in it[1]:
                outs.append(ana(b, M, mainlocks, edges, problems))
            M2 = []
            for o in outs:
                M2 += o
            M = M2
        elif it[0] == "loop":
            M1 = ana(it[1], M, mainlocks, edges, problems)
            if not set(M1) <= set(M):
                problems.append("loop-unbalanced: body may leave %s held" % ",".join(LOCK_NAMES[x] for x in sorted(set(M1) - set(M))))
    return M


def acq_of(ir, acc):
    for it in ir:
        if it[0] == "acq":
            acc.add(it[1])
        elif it[0] == "alt":
            for b in it[1]:
                acq_of(b, acc)
        elif it[0] == "loop":
            acq_of(it[1], acc)
    return acc


def diagnose(res):
    """per program: edges and problems; plus the global cycle check (python side, diagnostics only)"""
    tbl = res["table"]
    mainlocks = sorted(acq_of(tbl[MAIN], set()))
    per = {}
    alledges = set()
    for q in sorted(tbl):
        if not any_effect(tbl[q]) and q != MAIN:
            continue
        e, p = [], []
        ana(tbl[q], [], mainlocks, e, p)
        per[q] = {"edges": e, "problems": p}
        alledges |= {(a, b) for a, b, _ in e}
    if contains(tbl[MAIN], "wait") or contains(tbl[MAIN], "waitmain") or contains(tbl[MAIN], "unknown"):
        per[MAIN]["problems"].append("main-loop-waits: the main loop must not wait for a task of the server")
    succ = {}
    for a, b in alledges:
        succ.setdefault(a, set()).add(b)

    def reaches(a, b):
        seen, st = set(), [a]
        while st:
            x = st.pop()
            for y in succ.get(x, ()):
                if y == b:
                    return True
                if y not in seen:
                    seen.add(y)
                    st.append(y)
        return False
    bad = {(a, b) for a, b in alledges if a == b or reaches(b, a)}
    return per, sorted(alledges), sorted(bad), mainlocks


if __name__ == "__main__":
    repo = sys.argv[1] if len(sys.argv) > 1 else "/repo"
    r = translate(repo)
    per, alle, bad, ml = diagnose(r)
    print("main locks:", [LOCK_NAMES[x] for x in ml])
    print("edges:", [(LOCK_NAMES[a], LOCK_NAMES[b]) for a, b in alle])
    print("bad:", [(LOCK_NAMES[a], LOCK_NAMES[b]) for a, b in bad])
    for q, d in per.items():
        be = sorted({(LOCK_NAMES[a], LOCK_NAMES[b]) for a, b, _ in d["edges"] if (a, b) in bad})
        if be or d["problems"]:
            print(q, be, d["problems"])
    if len(sys.argv) > 2:
        print(json.dumps({q: events(ir) for q, ir in r["programs"].items() if any_effect(ir)}, indent=1))
