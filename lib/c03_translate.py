"""C03 translator: operator tables and feature sets regenerated from the Rust source.

Reads  <repo>/crates/emmylua_parser/src/kind/lua_operator_kind.rs   enum BinaryOperator (variant order = index into
                                                                     PRIORITY), const PRIORITY, const UNARY_PRIORITY
       <repo>/crates/emmylua_parser/src/kind/mod.rs                 LuaOpKind::to_unary_operator / to_binary_operator
       <repo>/crates/emmylua_parser/src/kind/lua_features.rs        features_lua51 .. features_lua54
and writes coq/theories/Gen/C03_Ops.v with gen_binop_of, gen_unop_of, gen_left, gen_right, gen_unary_priority,
gen_features.  The Coq side proves `table_ok` of these against the manual's precedence table (Spec.v) and
instantiates the completeness theorems with them.  A missing anchor raises AnchorError (=> broken tie).
"""
import os
import re


class AnchorError(Exception):
    pass


TOK = {  # LuaTokenKind -> Coq constructor of EV.C03.Syntax.tok
    "TkName": "TName", "TkInt": "TInt", "TkFloat": "TFloat", "TkString": "TString", "TkLongString": "TLongString",
    "TkNil": "TNil", "TkTrue": "TTrue", "TkFalse": "TFalse", "TkDots": "TDots", "TkAnd": "TAnd", "TkOr": "TOr",
    "TkNot": "TNot", "TkBreak": "TBreak", "TkDo": "TDo", "TkElse": "TElse", "TkElseIf": "TElseIf", "TkEnd": "TEnd",
    "TkFor": "TFor", "TkFunction": "TFunction", "TkGoto": "TGoto", "TkIf": "TIf", "TkIn": "TIn", "TkLocal": "TLocal",
    "TkRepeat": "TRepeat", "TkReturn": "TReturn", "TkThen": "TThen", "TkUntil": "TUntil", "TkWhile": "TWhile",
    "TkPlus": "TPlus", "TkMinus": "TMinus", "TkMul": "TMul", "TkDiv": "TDiv", "TkIDiv": "TIDiv", "TkMod": "TMod",
    "TkPow": "TPow", "TkLen": "TLen", "TkBitAnd": "TBitAnd", "TkBitOr": "TBitOr", "TkBitXor": "TBitXor",
    "TkShl": "TShl", "TkShr": "TShr", "TkConcat": "TConcat", "TkLt": "TLt", "TkLe": "TLe", "TkGt": "TGt",
    "TkGe": "TGe", "TkEq": "TEq", "TkNe": "TNe", "TkAssign": "TAssign", "TkLeftParen": "TLParen",
    "TkRightParen": "TRParen", "TkLeftBrace": "TLBrace", "TkRightBrace": "TRBrace", "TkLeftBracket": "TLBracket",
    "TkRightBracket": "TRBracket", "TkSemicolon": "TSemi", "TkComma": "TComma", "TkDot": "TDot", "TkColon": "TColon",
    "TkDbColon": "TDbColon",
}
BINOPS = ["OpAdd", "OpSub", "OpMul", "OpDiv", "OpIDiv", "OpMod", "OpPow", "OpBAnd", "OpBOr", "OpBXor", "OpShl", "OpShr",
          "OpConcat", "OpLt", "OpLe", "OpGt", "OpGe", "OpEq", "OpNe", "OpAnd", "OpOr"]
UNOPS = ["OpNot", "OpLen", "OpUnm", "OpBNot"]
# operators of the extensions (LuaJIT forks); their tokens are not produced at Lua 5.1-5.4
EXT_BINOPS = {"OpShrAthrimetic", "OpNilCoalescing", "OpNop"}
FEATURES = {"Goto": "f_goto", "BitwiseOperation": "f_bitop", "IntegerFloorDivision": "f_idiv", "LocalAttrib": "f_attrib"}


def strip_comments(src):
    src = re.sub(r"//[^\n]*", "", src)
    return re.sub(r"/\*.*?\*/", "", src, flags=re.S)


def body_of(src, header_re, what):
    m = re.search(header_re, src)
    if not m:
        raise AnchorError("anchor not found: " + what)
    i = src.index("{", m.end() - 1) if src[m.end() - 1] != "{" else m.end() - 1
    depth, j = 0, i
    while j < len(src):
        if src[j] == "{":
            depth += 1
        elif src[j] == "}":
            depth -= 1
            if depth == 0:
                return src[i + 1:j]
        j += 1
    raise AnchorError("unbalanced braces after " + what)


def build(repo):
    base = os.path.join(repo, "crates/emmylua_parser/src/kind")
    try:
        ops = strip_comments(open(os.path.join(base, "lua_operator_kind.rs"), encoding="utf8").read())
        modrs = strip_comments(open(os.path.join(base, "mod.rs"), encoding="utf8").read())
        feats = strip_comments(open(os.path.join(base, "lua_features.rs"), encoding="utf8").read())
    except OSError as e:
        raise AnchorError("source file missing: %s" % e)
    variants = [v.strip() for v in body_of(ops, r"pub\s+enum\s+BinaryOperator\s*\{", "enum BinaryOperator").split(",") if v.strip()]
    m = re.search(r"pub\s+const\s+PRIORITY\s*:\s*\[\s*PriorityTable\s*;\s*(\d+)\s*\]\s*=\s*\[(.*?)\]\s*;", ops, re.S)
    if not m:
        raise AnchorError("const PRIORITY: [PriorityTable; N] not found in lua_operator_kind.rs")
    prio = [(int(a), int(b)) for a, b in re.findall(r"PriorityTable\s*\{\s*left\s*:\s*(\d+)\s*,\s*right\s*:\s*(\d+)\s*,?\s*\}", m.group(2))]
    if len(prio) != int(m.group(1)):
        raise AnchorError("PRIORITY has %d entries, declared %s" % (len(prio), m.group(1)))
    if not re.search(r"&\s*PRIORITY\s*\[\s*\*\s*self\s+as\s+usize\s*\]", ops):
        raise AnchorError("BinaryOperator::get_priority no longer indexes PRIORITY by the variant number")
    m = re.search(r"pub\s+const\s+UNARY_PRIORITY\s*:\s*i32\s*=\s*(\d+)\s*;", ops)
    if not m:
        raise AnchorError("const UNARY_PRIORITY not found")
    unary = int(m.group(1))
    left, right = {}, {}
    for b in BINOPS:
        if b not in variants:
            raise AnchorError("BinaryOperator::%s not found" % b)
        i = variants.index(b)
        if i >= len(prio):
            raise AnchorError("no PRIORITY entry for %s" % b)
        left[b], right[b] = prio[i]

    def arms(fn, enum):
        body = body_of(modrs, r"pub\s+fn\s+%s\s*\(\s*kind\s*:\s*LuaTokenKind\s*\)\s*->\s*%s\s*\{" % (fn, enum), "fn " + fn)
        res = {}
        for pat, op in re.findall(r"((?:LuaTokenKind::\w+\s*\|?\s*)+)=>\s*%s::(\w+)" % enum, body):
            for tk in re.findall(r"LuaTokenKind::(\w+)", pat):
                res[tk] = op
        if not res:
            raise AnchorError("no match arms found in " + fn)
        return res
    bmap = arms("to_binary_operator", "BinaryOperator")
    umap = arms("to_unary_operator", "UnaryOperator")
    for tk, op in list(bmap.items()):
        if op not in BINOPS and op not in EXT_BINOPS:
            raise AnchorError("unknown binary operator %s for %s" % (op, tk))
    for tk, op in list(umap.items()):
        if op not in UNOPS and op != "OpNop":
            raise AnchorError("unknown unary operator %s for %s" % (op, tk))
    # the use sites in the expression parser
    expr = strip_comments(open(os.path.join(repo, "crates/emmylua_parser/src/grammar/lua/expr.rs"), encoding="utf8").read())
    for pat, what in [
        (r"parse_sub_expr\s*\(\s*p\s*,\s*UNARY_PRIORITY\s*\)", "unary operand parsed with UNARY_PRIORITY"),
        (r"bop\s*==\s*BinaryOperator::OpNop\s*\|\|\s*bop\s*\.\s*get_priority\s*\(\s*\)\s*\.\s*left\s*<=\s*limit", "loop exit `left <= limit`"),
        (r"parse_sub_expr\s*\(\s*p\s*,\s*bop\s*\.\s*get_priority\s*\(\s*\)\s*\.\s*right\s*\)", "right operand parsed with `.right`"),
        (r"pub\s+fn\s+parse_expr\s*\(\s*p\s*:\s*&mut\s+LuaParser\s*\)\s*->\s*ParseResult\s*\{\s*parse_sub_expr\s*\(\s*p\s*,\s*0\s*\)", "parse_expr = parse_sub_expr(p, 0)"),
    ]:
        if not re.search(pat, expr):
            raise AnchorError("expr.rs: %s not found" % what)
    # feature sets: resolve the chain features_lua51 .. features_lua54
    fsets = {}

    def fset(name):
        if name in fsets:
            return fsets[name]
        body = body_of(feats, r"pub\s+fn\s+%s\s*\(\s*\)\s*->\s*Self\s*\{" % name, "fn " + name)
        s = set()
        mm = re.search(r"LuaFeaturesSet::(features_\w+)\s*\(\s*\)", body)
        if mm:
            s |= fset(mm.group(1))
        elif not re.search(r"LuaFeaturesSet::default\s*\(\s*\)", body):
            raise AnchorError("%s: base set not recognised" % name)
        s |= set(re.findall(r"set\s*\.\s*add\s*\(\s*LuaFeatures::(\w+)\s*\)", body))
        fsets[name] = s
        return s
    levels = {}
    for lv, fn in [("Lua51", "features_lua51"), ("Lua52", "features_lua52"), ("Lua53", "features_lua53"), ("Lua54", "features_lua54")]:
        levels[lv] = fset(fn)
    # lexical constants: the characters skipped after '\\z' (lexer) and the largest accepted \\u{XXX} value (checker)
    lexer = strip_comments(open(os.path.join(repo, "crates/emmylua_parser/src/lexer/lua_lexer.rs"), encoding="utf8").read())
    m = re.search(r"'z'\s*=>\s*\{\s*self\s*\.\s*reader\s*\.\s*bump\s*\(\s*\)\s*;\s*self\s*\.\s*reader\s*\.\s*eat_while\s*\((.*?)\)\s*;\s*\}", lexer, re.S)
    if not m:
        raise AnchorError("lex_string: the eat_while after '\\z' was not found")
    CH = {"' '": 32, "'\\t'": 9, "'\\r'": 13, "'\\n'": 10, "'\\x0B'": 11, "'\\x0b'": 11, "'\\x0C'": 12, "'\\x0c'": 12, "'\\u{b}'": 11, "'\\u{c}'": 12}
    lits = re.findall(r"'(?:\\.[^']*|[^'\\])'", m.group(1))
    zsp = []
    for lit in lits:
        if lit not in CH:
            raise AnchorError("lex_string: unexpected character %s in the '\\z' skip set" % lit)
        if CH[lit] not in zsp:
            zsp.append(CH[lit])
    if not zsp:
        raise AnchorError("lex_string: empty '\\z' skip set")
    chk_path = os.path.join(repo, "crates/emmylua_code_analysis/src/diagnostic/checker/syntax_error.rs")
    try:
        chk = strip_comments(open(chk_path, encoding="utf8").read())
    except OSError as e:
        raise AnchorError("source file missing: %s" % e)
    m = re.search(r"u32\s*::\s*from_str_radix\s*\(\s*&\s*unicode_hex\s*,\s*16\s*\)\s*&&\s*code_point\s*>\s*0x([0-9A-Fa-f_]+)", chk)
    if not m:
        raise AnchorError("check_normal_string_error: `code_point > 0x...` test of \\u{XXX} not found")
    umax = int(m.group(1).replace("_", ""), 16)
    return {"left": left, "right": right, "unary": unary, "bmap": bmap, "umap": umap, "levels": levels, "zsp": zsp, "umax": umax}


def render(g):
    L = ["(** GENERATED by lib/c03_translate.py from crates/emmylua_parser/src/kind/{lua_operator_kind,mod,lua_features}.rs — do not edit. *)",
         "From Coq Require Import List NArith.", "Import ListNotations.", "From EV Require Import C03.Syntax.", "Local Open Scope N_scope.", ""]
    L.append("(** LuaOpKind::to_binary_operator, restricted to the tokens and operators of standard Lua *)")
    L.append("Definition gen_binop_of (t : tok) : option binop :=\n  match t with")
    for tk in sorted(g["bmap"]):
        op = g["bmap"][tk]
        if tk in TOK and op in BINOPS:
            L.append("  | %s => Some %s" % (TOK[tk], op))
    L.append("  | _ => None\n  end.\n")
    L.append("(** LuaOpKind::to_unary_operator *)")
    L.append("Definition gen_unop_of (t : tok) : option unop :=\n  match t with")
    for tk in sorted(g["umap"]):
        op = g["umap"][tk]
        if tk in TOK and op in UNOPS:
            L.append("  | %s => Some %s" % (TOK[tk], op))
    L.append("  | _ => None\n  end.\n")
    for nm, d in (("gen_left", g["left"]), ("gen_right", g["right"])):
        L.append("(** PRIORITY[op as usize].%s *)" % nm[4:])
        L.append("Definition %s (b : binop) : nat :=\n  match b with" % nm)
        for b in BINOPS:
            L.append("  | %s => %d%%nat" % (b, d[b]))
        L.append("  end.\n")
    L.append("Definition gen_unary_priority : nat := %d%%nat.\n" % g["unary"])
    L.append("(** LuaFeaturesSet::features_lua51 .. features_lua54 *)")
    L.append("Definition gen_features (l : level) : features :=\n  match l with")
    for lv in ("Lua51", "Lua52", "Lua53", "Lua54"):
        fs = g["levels"][lv]
        L.append("  | %s => {| %s |}" % (lv, "; ".join("%s := %s" % (FEATURES[k], "true" if k in fs else "false") for k in FEATURES)))
    L.append("  end.")
    L.append("")
    L.append("(** lexer/lua_lexer.rs fn lex_string: code points skipped after a backslash-z *)")
    L.append("Definition gen_zsp_chars : list BinNums.N := [%s]." % "; ".join(str(c) for c in g["zsp"]))
    L.append("(** syntax_error.rs fn check_normal_string_error: the largest accepted value of a \\u{XXX} escape *)")
    L.append("Definition gen_umax : BinNums.N := %d." % g["umax"])
    return "\n".join(L) + "\n"


def regenerate(repo, out_path):
    g = build(repo)
    txt = render(g)
    old = open(out_path, encoding="utf8").read() if os.path.exists(out_path) else None
    if old != txt:
        os.makedirs(os.path.dirname(out_path), exist_ok=True)
        with open(out_path, "w", encoding="utf8") as fh:
            fh.write(txt)
    return g


if __name__ == "__main__":
    import sys
    regenerate(sys.argv[1] if len(sys.argv) > 1 else "/repo", sys.argv[2] if len(sys.argv) > 2 else "/dev/stdout")
