"""Translator for C16/C12: regenerates coq/theories/Gen/C16_Consts.v from /repo's current source.

Read off the source (syntactic shapes only; anything else raises Anchor, which the plugins turn into a broken tie):
  * semantic/type_check/type_check_guard.rs : `const MAX_TYPE_CHECK_LEVEL: i32 = N;`, `stack_level: 0` in new(),
    `let next_level = self.stack_level + 1;` and `if next_level > MAX_TYPE_CHECK_LEVEL` in next_level()
  * db_index/type/mod.rs                     : `const MAX_RECURSION_DEPTH: u32 = N;` inside get_real_type_with_depth and
    the `if depth >= MAX_RECURSION_DEPTH` test
  * db_index/type/humanize_type.rs           : `const DEFAULT_MAX_DEPTH: u8 = N;`, `if self.depth >= self.max_depth`
  * db_index/type/basic_union.rs             : `enum BasicTypeKind { .. }` declaration order (the bit positions of the
    Basic union bitset = the iteration order of `BasicTypeUnion::iter`)
  * semantic/type_check/mod.rs               : order of the gates of check_general_type_compact
    (is_like_any -> fast_eq_check -> escape_type -> Intersection -> `match source`)
  * semantic/type_check/sub_type.rs          : base_type_name table (type variant -> primitive class name)
"""
import hashlib
import os
import re


class Anchor(Exception):
    pass


def _read(repo, rel):
    p = os.path.join(repo, "crates/emmylua_code_analysis/src", rel)
    if not os.path.exists(p):
        raise Anchor("missing file %s" % p)
    return open(p, encoding="utf8").read()


def _const(src, name, ty, what):
    m = re.search(r"\bconst\s+%s\s*:\s*%s\s*=\s*(\d+)\s*;" % (name, ty), src)
    if not m:
        raise Anchor("anchor `const %s: %s = <int>;` not found in %s" % (name, ty, what))
    return int(m.group(1))


def _need(src, pattern, what):
    if not re.search(pattern, src):
        raise Anchor("anchor /%s/ not found in %s" % (pattern, what))


BASIC_EXPECTED = ["Unknown", "Any", "Nil", "Table", "Userdata", "Function", "Thread", "Boolean", "String", "Integer",
                  "Number", "Io", "SelfInfer", "Global", "Never"]

# the model's reserved name ids for primitive class names (C16/Model.v base_type_name)
BASE_NAMES = {"integer": 1, "number": 2, "boolean": 3, "string": 4, "table": 5, "function": 6, "thread": 7,
              "userdata": 8, "io": 9, "global": 10, "self": 11, "nil": 12}


def extract(repo):
    guard = _read(repo, "semantic/type_check/type_check_guard.rs")
    max_level = _const(guard, "MAX_TYPE_CHECK_LEVEL", "i32", "type_check_guard.rs")
    _need(guard, r"Self\s*\{\s*stack_level\s*:\s*0\s*\}", "type_check_guard.rs (new starts at level 0)")
    _need(guard, r"let\s+next_level\s*=\s*self\.stack_level\s*\+\s*1\s*;", "type_check_guard.rs (next_level adds 1)")
    _need(guard, r"if\s+next_level\s*>\s*MAX_TYPE_CHECK_LEVEL\s*\{\s*return\s+Err\(TypeCheckFailReason::TypeRecursion\)",
          "type_check_guard.rs (limit test)")

    tmod = _read(repo, "db_index/type/mod.rs")
    real_depth = _const(tmod, "MAX_RECURSION_DEPTH", "u32", "db_index/type/mod.rs")
    _need(tmod, r"if\s+depth\s*>=\s*MAX_RECURSION_DEPTH\s*\{\s*return\s+Some\(typ\)", "get_real_type_with_depth (limit test)")
    _need(tmod, r"get_real_type_with_depth\(db,\s*type_decl\.get_alias_ref\(\)\?,\s*depth\s*\+\s*1\)", "get_real_type_with_depth (+1)")

    hum = _read(repo, "db_index/type/humanize_type.rs")
    hum_depth = _const(hum, "DEFAULT_MAX_DEPTH", "u8", "humanize_type.rs")
    _need(hum, r"if\s+self\.depth\s*>=\s*self\.max_depth\s*\{\s*return\s+None", "humanize_type.rs (depth guard)")
    _need(hum, r"self\.depth\s*\+=\s*1\s*;", "humanize_type.rs (depth += 1)")

    bu = _read(repo, "db_index/type/basic_union.rs")
    m = re.search(r"pub\s+enum\s+BasicTypeKind\s*\{([^}]*)\}", bu)
    if not m:
        raise Anchor("anchor `enum BasicTypeKind` not found in basic_union.rs")
    kinds = [k.strip() for k in m.group(1).split(",") if k.strip()]
    if not kinds or kinds[-1] != "Count":
        raise Anchor("BasicTypeKind does not end with Count")
    kinds = kinds[:-1]

    tc = _read(repo, "semantic/type_check/mod.rs")
    m = re.search(r"fn\s+check_general_type_compact\b", tc)
    if not m:
        raise Anchor("anchor `fn check_general_type_compact` not found")
    body = tc[m.end():]
    gates = []
    for name, pat in [("is_like_any", r"if\s+is_like_any\(compact_type\)"), ("fast_eq_check", r"if\s+fast_eq_check\(source,\s*compact_type\)"),
                      ("escape_type", r"escape_type\(context\.db,\s*compact_type\)"), ("intersection", r"LuaType::Intersection\(compact_intersection\)\s*=\s*compact_type"),
                      ("dispatch_on_source", r"match\s+source\s*\{")]:
        mm = re.search(pat, body)
        if not mm:
            raise Anchor("gate %s of check_general_type_compact not found" % name)
        gates.append((mm.start(), name))
    order = [n for _, n in sorted(gates)]

    st = _read(repo, "semantic/type_check/sub_type.rs")
    m = re.search(r"fn\s+base_type_name\b.*?\{(.*)\n\}", st, re.S)
    if not m:
        raise Anchor("anchor `fn base_type_name` not found in sub_type.rs")
    names = sorted(set(re.findall(r'Some\("(\w+)"\)', m.group(1))))
    _need(st, r"let\s+mut\s+visited\s*=\s*HashSet::with_capacity", "sub_type.rs (visited set)")
    _need(st, r"if\s+visited\.insert\(super_id\)\s*\{\s*stack\.push\(super_id\)", "sub_type.rs (push only new ids)")

    digest = hashlib.sha256(("|".join([guard, tmod[:0], hum[:0], bu, st])).encode()).hexdigest()[:16]
    return {"max_level": max_level, "real_depth": real_depth, "hum_depth": hum_depth, "kinds": kinds, "order": order,
            "base_names": names, "digest": digest}


def render(t):
    out = []
    out.append("(** GENERATED by /verif/lib/c16_consts.py from /repo — DO NOT EDIT (regenerated on every run of checks C16/C12).")
    out.append("    sources: semantic/type_check/type_check_guard.rs, db_index/type/mod.rs, db_index/type/humanize_type.rs,")
    out.append("    db_index/type/basic_union.rs, semantic/type_check/mod.rs, semantic/type_check/sub_type.rs; digest %s *)" % t["digest"])
    out.append("From Coq Require Import List NArith String.")
    out.append("Import ListNotations.")
    out.append("Local Open Scope N_scope.")
    out.append("")
    out.append("(** [const MAX_TYPE_CHECK_LEVEL: i32] (TypeCheckGuard::next_level fails when level + 1 > this) *)")
    out.append("Definition MAX_TYPE_CHECK_LEVEL : N := %d." % t["max_level"])
    out.append("(** [const MAX_RECURSION_DEPTH: u32] of get_real_type_with_depth *)")
    out.append("Definition REAL_TYPE_MAX_DEPTH : N := %d." % t["real_depth"])
    out.append("(** [const DEFAULT_MAX_DEPTH: u8] of TypeHumanizer *)")
    out.append("Definition HUMANIZE_MAX_DEPTH : N := %d." % t["hum_depth"])
    out.append("")
    out.append("(** declaration order of [enum BasicTypeKind] = bit positions of the Basic union bitset *)")
    out.append("Definition basic_kind_names : list string := [%s]%%string." % "; ".join('"%s"' % k for k in t["kinds"]))
    out.append("(** order of the gates of check_general_type_compact *)")
    out.append("Definition general_gate_order : list string := [%s]%%string." % "; ".join('"%s"' % k for k in t["order"]))
    out.append("(** primitive class names produced by base_type_name (sorted) *)")
    out.append("Definition base_type_names : list string := [%s]%%string." % "; ".join('"%s"' % k for k in t["base_names"]))
    out.append("")
    return "\n".join(out)


def regenerate(repo, coq_dir):
    """returns (path, tables); raises Anchor"""
    t = extract(repo)
    path = os.path.join(coq_dir, "theories", "Gen", "C16_Consts.v")
    os.makedirs(os.path.dirname(path), exist_ok=True)
    txt = render(t)
    old = open(path, encoding="utf8").read() if os.path.exists(path) else None
    if old != txt:
        with open(path, "w", encoding="utf8") as fh:
            fh.write(txt)
    return path, t


if __name__ == "__main__":
    import sys
    here = os.path.dirname(os.path.abspath(__file__))
    p, t = regenerate(sys.argv[1] if len(sys.argv) > 1 else "/repo", os.path.join(os.path.dirname(here), "coq"))
    print(p, t)
