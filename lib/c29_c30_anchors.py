"""Source anchors of the C29 / C30 models, regenerated on every run (lexical, on top of lib/c28_locks.py's tokenizer).

C29 -> coq/theories/Gen/C29_Sync.v:
  sync_bumps_always / close_bumps_always : WorkspaceManager::sync_open_file / close_open_file assign
      open_file_state_version at the top level of their body (unconditionally), not inside an `if`/block;
  handler_sections_ok : didOpen/didChange call sync_open_file before update_file_by_uri; didClose calls
      close_open_file before it touches the analysis;
  reload_sections_ok  : apply_workspace_reload = snapshot, clear_non_std_workspaces, init_analysis,
      sync_reloaded_open_files in that order; the version loop compares versions, takes the snapshot before
      apply_open_file_sync and stores it as the applied one; reload tasks take reload_lock.
C30 -> coq/theories/Gen/C30_Order.v:
  clear_after_remove : every `clear_push_file_diagnostics` call comes after a removal from the analysis
      (remove_file_by_uri / reload_workspace_files / apply_open_file_sync) in its function, and no removal follows
      it in the same block (the empty publish is the LAST thing said about a removed file);
  publish_under_read_lock : in add_diagnostic_task's spawned task `publish_diagnostics` comes after
      `analysis.read().await` and before the guard's scope ends (no `drop(analysis)` in between).
"""
import os
import c28_locks as T


class AnchorError(Exception):
    pass


def load_fns(repo, rel):
    path = os.path.join(repo, "crates", "emmylua_ls", "src", rel)
    if not os.path.exists(path):
        raise AnchorError("anchor missing: %s" % rel)
    tree = T.nest(T.tokenize(open(path, encoding="utf8").read()))
    fns = []
    T.find_fns(tree.ch, rel, None, fns)
    return {f.name: f for f in fns}


def need(fns, name, rel):
    if name not in fns:
        raise AnchorError("anchor missing: fn %s in %s" % (name, rel))
    return fns[name]


def flat(body):
    return [t.s for t in T.flatten(body.ch)]


def pos(toks, name, what):
    if name not in toks:
        raise AnchorError("anchor missing: `%s` in %s" % (name, what))
    return toks.index(name)


def bump_unconditional(fn, container_op):
    """True: `open_file_state_version = ..` is a top-level statement of the body; False: only inside a nested block"""
    toks = flat(fn.body)
    if "open_file_state_version" not in toks or container_op not in toks:
        raise AnchorError("anchor missing: %s no longer updates open_file_texts / open_file_state_version" % fn.qual)
    ch = fn.body.ch
    for i, x in enumerate(ch):
        if T.is_t(x, "open_file_state_version") and i + 1 < len(ch) and T.is_t(ch[i + 1], "="):
            # a top-level assignment; make sure the statement is not the tail of `if cond` without braces (impossible in Rust)
            return True
    return False


def c29_facts(repo):
    rel = "context/workspace_manager.rs"
    wm = load_fns(repo, rel)
    facts = {}
    facts["sync_bumps_always"] = bump_unconditional(need(wm, "sync_open_file", rel), "insert")
    facts["close_bumps_always"] = bump_unconditional(need(wm, "close_open_file", rel), "remove")
    td_rel = "handlers/text_document/text_document_handler.rs"
    td = load_fns(repo, td_rel)
    ok = True
    for name in ("on_did_open_text_document", "on_did_change_text_document"):
        t = flat(need(td, name, td_rel).body)
        ok &= pos(t, "sync_open_file", name) < pos(t, "update_file_by_uri", name)
    t = flat(need(td, "on_did_close_document", td_rel).body)
    p_close = pos(t, "close_open_file", "on_did_close_document")
    ok &= p_close < pos(t, "remove_file_by_uri", "on_did_close_document")
    if "update_file_by_uri" in t:
        ok &= p_close < t.index("update_file_by_uri")
    ok &= p_close < pos(t, "analysis", "on_did_close_document")
    facts["handler_sections_ok"] = bool(ok)
    t = flat(need(wm, "apply_workspace_reload", rel).body)
    order = [pos(t, n, "apply_workspace_reload") for n in ("workspace_open_files_snapshot", "clear_non_std_workspaces", "init_analysis", "sync_reloaded_open_files")]
    rok = order == sorted(order)
    t = flat(need(wm, "sync_reloaded_open_files", rel).body)
    p_snap = pos(t, "workspace_open_files_snapshot", "sync_reloaded_open_files")
    p_apply = pos(t, "apply_open_file_sync", "sync_reloaded_open_files")
    rok &= p_snap < p_apply
    cmp_ok = any(t[i] == "version" and t[i + 1] == "==" for i in range(len(t) - 1))
    rok &= cmp_ok
    rok &= any(t[i] == "applied_snapshot" and t[i + 1] == "=" and t[i + 2] == "next_snapshot" for i in range(p_apply, len(t) - 2))
    t = flat(need(wm, "spawn_workspace_reload_task", rel).body)
    rok &= pos(t, "reload_lock", "spawn_workspace_reload_task") < pos(t, "apply_workspace_reload", "spawn_workspace_reload_task")
    facts["reload_sections_ok"] = bool(rok)
    return facts


REMOVALS = ("remove_file_by_uri", "reload_workspace_files", "apply_open_file_sync")


def clear_sites(repo):
    """[(fn qual, line, ok)] for every clear_push_file_diagnostics call in handlers/ and context/"""
    src_root = os.path.join(repo, "crates", "emmylua_ls", "src")
    sites = []
    for root, dirs, names in os.walk(src_root):
        dirs.sort()
        if any(p in ("test", "test_lib", "tests") for p in os.path.relpath(root, src_root).split(os.sep)):
            continue
        for n in sorted(names):
            if not n.endswith(".rs") or n in ("tests.rs", "test.rs"):
                continue
            path = os.path.join(root, n)
            txt = open(path, encoding="utf8").read()
            if "clear_push_file_diagnostics" not in txt:
                continue
            rel = os.path.relpath(path, src_root).replace(os.sep, "/")
            fns = []
            T.find_fns(T.nest(T.tokenize(txt)).ch, rel, None, fns)
            for f in fns:
                if f.name == "clear_push_file_diagnostics":
                    continue
                toks = list(T.flatten(f.body.ch))
                names_ = [t.s for t in toks]

                def walk(grp, before):
                    """before: a removal was seen earlier in the function (textually)"""
                    ch = grp.ch
                    for i, x in enumerate(ch):
                        if isinstance(x, T.Group):
                            seen_here = before or any(T.is_t(y) and y.s in REMOVALS for y in T.flatten(ch[:i]))
                            walk(x, seen_here)
                        elif T.is_t(x, "clear_push_file_diagnostics") and i + 1 < len(ch) and T.is_g(ch[i + 1], "("):
                            earlier = before or any(T.is_t(y) and y.s in REMOVALS for y in T.flatten(ch[:i]))
                            later = any(T.is_t(y) and y.s in REMOVALS for y in T.flatten(ch[i + 1:]))
                            sites.append((f.qual, x.line, bool(earlier and not later)))
                walk(f.body, False)
    return sites


def c30_facts(repo):
    sites = clear_sites(repo)
    if not any(q.endswith("on_did_close_document") for q, _, _ in sites):
        raise AnchorError("anchor missing: clear_push_file_diagnostics in on_did_close_document")
    rel = "context/file_diagnostic.rs"
    fd = load_fns(repo, rel)
    t = flat(need(fd, "add_diagnostic_task", rel).body)
    p_read = None
    for i in range(len(t) - 4):
        if t[i] == "analysis" and t[i + 1] == "." and t[i + 2] == "read":
            p_read = i
            break
    if p_read is None:
        raise AnchorError("anchor missing: analysis.read() in add_diagnostic_task")
    p_pub = pos(t, "publish_diagnostics", "add_diagnostic_task")
    dropped = any(t[i] == "drop" and t[i + 2] == "analysis" for i in range(p_read, p_pub))
    p_rm = [i for i in range(len(t) - 1) if t[i] == "tokens" and t[i + 2] == "remove"]
    return {"clear_after_remove": all(ok for _, _, ok in sites), "publish_under_read_lock": bool(p_read < p_pub and not dropped),
            "token_removed_after_publish": bool(p_rm and p_rm[-1] > p_pub), "sites": sites}


def coq_bool(b):
    return "true" if b else "false"


def write_if_changed(path, txt):
    old = open(path).read() if os.path.exists(path) else None
    if old != txt:
        os.makedirs(os.path.dirname(path), exist_ok=True)
        with open(path, "w") as fh:
            fh.write(txt)


def write_c29(facts, path, repo):
    txt = "(* GENERATED by lib/c29_c30_anchors.py from %s/crates/emmylua_ls/src -- do not edit; regenerated on every run of bin/check C29 *)\n" % repo
    for k in ("sync_bumps_always", "close_bumps_always", "handler_sections_ok", "reload_sections_ok"):
        txt += "Definition %s : bool := %s.\n" % (k, coq_bool(facts[k]))
    write_if_changed(path, txt)


def write_c30(facts, path, repo):
    txt = "(* GENERATED by lib/c29_c30_anchors.py from %s/crates/emmylua_ls/src -- do not edit; regenerated on every run of bin/check C30 *)\n" % repo
    txt += "(* clear_push_file_diagnostics call sites: %s *)\n" % "; ".join("%s:%d %s" % (q, l, "ok" if ok else "BEFORE-REMOVAL") for q, l, ok in facts["sites"])
    for k in ("clear_after_remove", "publish_under_read_lock", "token_removed_after_publish"):
        txt += "Definition %s : bool := %s.\n" % (k, coq_bool(facts[k]))
    write_if_changed(path, txt)


if __name__ == "__main__":
    import sys
    repo = sys.argv[1] if len(sys.argv) > 1 else "/repo"
    print(c29_facts(repo))
    print(c30_facts(repo))
