"""C38 translator: struct/enum field type graph reachable from `EmmyLuaAnalysis` -> coq/theories/Gen/C38_TyGraph.v

Lexical (no rustc): strips comments/strings, finds `struct` / `enum` / `type` items and `unsafe impl Send/Sync` in
crates/emmylua_code_analysis/src and crates/emmylua_parser/src (non-test files), parses field types with a small
recursive-descent parser, resolves type names to in-crate definitions (by last path segment; several definitions of one
name are merged conservatively) and classifies the remaining (external) leaves with the REVIEWED tables below.
Anything that cannot be parsed or classified becomes `TUnknown`, which fails the Coq obligation.
"""
import hashlib
import os
import re

# ----------------------------------------------------------------------------- reviewed leaf tables
# external types that are plain data, Send + Sync (reviewed against their crates' sources / docs)
PRIM = {
    "bool", "char", "str", "u8", "u16", "u32", "u64", "u128", "usize", "i8", "i16", "i32", "i64", "i128", "isize", "f32", "f64",
    "String", "PathBuf", "Path", "OsString", "Duration", "Instant", "SystemTime",
    "AtomicBool", "AtomicUsize", "AtomicU32", "AtomicU64", "AtomicI32", "AtomicI64",
    "TextRange", "TextSize",              # text-size: two u32 / one u32
    "SmolStr",                            # smol_str: inline or Arc<str>
    "Uri", "Url",                         # lsp_types::Uri (fluent_uri over String), url::Url
    "Regex",                              # regex::Regex is Send + Sync
    "GreenNode", "GreenToken", "NodeCache",  # rowan green trees: Arc-based, immutable; NodeCache = hash sets of them
    "Value", "Number",                    # serde_json
    "CancellationToken",                  # tokio_util: Arc<TreeNode> with a Mutex inside
    "Diagnostic", "DiagnosticSeverity", "DiagnosticTag", "Range", "Position", "Location", "NumberOrString",
    "DiagnosticRelatedInformation", "CodeDescription",  # lsp_types data
    "GlobSet", "Glob", "GlobMatcher", "WaxGlob", "Pattern",
    "LanguageIdentifier", "Locale",
    "Ordering",
    "OrderedFloat", "NotNan",
    "Version", "VersionReq",
    "Schema", "RootSchema",
    "Infallible",
}
# containers whose auto traits are exactly those of their type arguments
TRANSPARENT = {
    "Vec", "VecDeque", "HashMap", "HashSet", "BTreeMap", "BTreeSet", "Option", "Result", "Box", "IndexMap", "IndexSet",
    "SmallVec", "Cow", "PhantomData", "Reverse", "BinaryHeap", "LinkedList", "FxHashMap", "FxHashSet", "Range_", "RangeInclusive",
    "ManuallyDrop", "Wrapping", "Pin", "NonZero",
    "FlagSet",                            # flagset::FlagSet<F>(F::Type): an integer; transparent over F is conservative
}
ARC = {"Arc", "ArcIntern", "Intern", "Weak_arc"}      # Send + Sync iff T: Send + Sync (internment::ArcIntern has the same bound)
CELL = {"Cell", "RefCell", "UnsafeCell", "OnceCell"}  # Send iff T: Send; never Sync
MUTEX = {"Mutex"}                                      # Send iff T: Send; Sync iff T: Send
RWLOCK = {"RwLock", "OnceLock", "LazyLock"}            # Send iff T: Send; Sync iff T: Send + Sync
# never Send nor Sync; the number is the reason code printed in the Coq term
BAD = {
    "Rc": 1, "Weak": 1,
    "NonNull": 2,
    "SyntaxNode": 3, "SyntaxToken": 3, "SyntaxElement": 3, "NodeOrToken": 3, "SyntaxNodeChildren": 3, "SyntaxElementChildren": 3,
    "Preorder": 3, "PreorderWithTokens": 3, "SyntaxText": 3, "TokenAtOffset": 3,
    "MutexGuard": 4, "RwLockReadGuard": 4, "RwLockWriteGuard": 4, "Ref": 4, "RefMut": 4,
}
BAD_REASON = {1: "Rc/Weak (non-atomic reference count)", 2: "raw / NonNull pointer", 3: "rowan cursor node (Rc-based red tree)",
              4: "lock / borrow guard", 5: "raw pointer"}


# ----------------------------------------------------------------------------- lexing
def strip_comments_and_strings(src):
    out = []
    i, n = 0, len(src)
    while i < n:
        c = src[i]
        if src.startswith("//", i):
            j = src.find("\n", i)
            i = n if j < 0 else j
        elif src.startswith("/*", i):
            depth, i = 1, i + 2
            while i < n and depth:
                if src.startswith("/*", i):
                    depth += 1; i += 2
                elif src.startswith("*/", i):
                    depth -= 1; i += 2
                else:
                    i += 1
        elif c == '"':
            i += 1
            while i < n and src[i] != '"':
                i += 2 if src[i] == "\\" else 1
            i += 1
            out.append('""')
        elif c == "r" and re.match(r'r#*"', src[i:]) and (i == 0 or not (src[i - 1].isalnum() or src[i - 1] == "_")):
            m = re.match(r'r(#*)"', src[i:])
            close = '"' + m.group(1)
            j = src.find(close, i + len(m.group(0)))
            i = n if j < 0 else j + len(close)
            out.append('""')
        elif c == "'":
            m = re.match(r"'(\\.[^']*|[^'\\])'", src[i:])
            if m:
                out.append("' '")
                i += len(m.group(0))
            else:
                out.append(c)   # lifetime
                i += 1
        else:
            out.append(c)
            i += 1
    return "".join(out)


TOKEN = re.compile(r"\s*(->|::|'[A-Za-z_]\w*|[A-Za-z_]\w*|\d[\w.]*|[<>(),;\[\]&*+=!?:{}#|.\-@$/%^~])")


def tokenize(s):
    toks, i = [], 0
    while i < len(s):
        m = TOKEN.match(s, i)
        if not m:
            if s[i:].strip() == "":
                break
            toks.append(s[i]); i += 1
            continue
        toks.append(m.group(1)); i = m.end()
    return toks


# ----------------------------------------------------------------------------- type expressions
class P:
    def __init__(self, toks):
        self.t, self.i = toks, 0

    def peek(self, k=0):
        return self.t[self.i + k] if self.i + k < len(self.t) else None

    def eat(self, x=None):
        tok = self.peek()
        if x is not None and tok != x:
            raise SyntaxError("expected %r got %r" % (x, tok))
        self.i += 1
        return tok


def parse_type(p):
    """returns a python AST: ("path", name, [args]) | ("tuple",[..]) | ("ref",mut,t) | ("ptr",) | ("dyn",send,sync) | ("fn",) | ("unknown",why)"""
    tok = p.peek()
    if tok is None:
        raise SyntaxError("eof")
    if tok == "&":
        p.eat()
        if p.peek() and p.peek().startswith("'"):
            p.eat()
        mut = False
        if p.peek() == "mut":
            p.eat(); mut = True
        return ("ref", mut, parse_type(p))
    if tok == "*":
        p.eat()
        if p.peek() in ("const", "mut"):
            p.eat()
        parse_type(p)
        return ("ptr",)
    if tok == "(":
        p.eat()
        items = []
        while p.peek() != ")":
            items.append(parse_type(p))
            if p.peek() == ",":
                p.eat()
        p.eat(")")
        if len(items) == 1:
            return items[0] if True else None
        return ("tuple", items)
    if tok == "[":
        p.eat()
        t = parse_type(p)
        if p.peek() == ";":
            while p.peek() != "]":
                p.eat()
        p.eat("]")
        return ("tuple", [t])
    if tok in ("dyn", "impl"):
        p.eat()
        send = sync = False
        # bounds: Trait<..>(..) -> .. + Send + Sync + 'a
        while True:
            b = p.peek()
            if b is None:
                break
            if b.startswith("'"):
                p.eat()
            elif b == "for":
                p.eat(); skip_angle(p)
                continue
            else:
                path = parse_type(p)
                if path[0] == "path":
                    if path[1] == "Send":
                        send = True
                    if path[1] == "Sync":
                        sync = True
            if p.peek() == "+":
                p.eat()
                continue
            break
        return ("dyn", send, sync)
    if tok in ("fn", "unsafe", "extern"):
        while p.peek() in ("unsafe", "extern") or (p.peek() or "").startswith('"'):
            p.eat()
        p.eat("fn")
        p.eat("(")
        depth = 1
        while depth:
            x = p.eat()
            depth += 1 if x == "(" else -1 if x == ")" else 0
        if p.peek() == "->":
            p.eat(); parse_type(p)
        return ("fn",)
    if tok == "!":
        p.eat()
        return ("path", "Infallible", [])
    if tok == "<":
        # qualified path <T as Trait>::Assoc : not resolvable lexically
        skip_angle(p)
        while p.peek() == "::":
            p.eat(); p.eat()
        return ("unknown", "qualified path")
    if re.match(r"[A-Za-z_]\w*$", tok) or tok == "::":
        segs, args = [], []
        if tok == "::":
            p.eat()
        while True:
            name = p.eat()
            if not re.match(r"[A-Za-z_]\w*$", name or ""):
                raise SyntaxError("bad path segment %r" % name)
            segs.append(name)
            args = []
            if p.peek() == "::" and p.peek(1) == "<":
                p.eat()
            if p.peek() == "<":
                args = parse_generic_args(p)
            if name in ("Fn", "FnMut", "FnOnce") and p.peek() == "(":
                p.eat()
                depth = 1
                while depth:
                    x = p.eat()
                    depth += 1 if x == "(" else -1 if x == ")" else 0
                if p.peek() == "->":
                    p.eat(); parse_type(p)
            if p.peek() == "::":
                p.eat()
                continue
            break
        return ("path", segs[-1], args, segs)
    raise SyntaxError("unexpected token %r" % tok)


def skip_angle(p):
    p.eat("<")
    depth = 1
    while depth:
        x = p.eat()
        if x is None:
            raise SyntaxError("unbalanced <")
        depth += 1 if x == "<" else -1 if x == ">" else 0


def parse_generic_args(p):
    p.eat("<")
    args = []
    while p.peek() != ">":
        tok = p.peek()
        if tok.startswith("'"):
            p.eat()
        elif re.match(r"\d", tok) or tok == "{":
            # const generic
            p.eat()
        elif re.match(r"[A-Za-z_]\w*$", tok) and p.peek(1) == "=":
            p.eat(); p.eat(); args.append(parse_type(p))   # assoc type binding
        else:
            args.append(parse_type(p))
        if p.peek() == ",":
            p.eat()
    p.eat(">")
    return args


# ----------------------------------------------------------------------------- items
def split_top(toks, sep=","):
    parts, cur, depth = [], [], 0
    for t in toks:
        if t in "([{<":
            depth += 1
        elif t in ")]}>":
            depth -= 1
        elif t == "->":
            pass
        if t == sep and depth == 0:
            parts.append(cur); cur = []
        else:
            cur.append(t)
    if cur:
        parts.append(cur)
    return parts


def strip_attrs_vis(toks):
    toks = list(toks)
    while toks:
        if toks[0] == "#" and len(toks) > 1 and toks[1] == "[":
            depth, i = 0, 1
            while i < len(toks):
                if toks[i] == "[":
                    depth += 1
                elif toks[i] == "]":
                    depth -= 1
                    if depth == 0:
                        break
                i += 1
            toks = toks[i + 1:]
        elif toks[0] == "pub":
            toks = toks[1:]
            if toks and toks[0] == "(":
                i = toks.index(")")
                toks = toks[i + 1:]
        else:
            break
    return toks


def matching(toks, i, open_, close):
    depth = 0
    while i < len(toks):
        if toks[i] == open_:
            depth += 1
        elif toks[i] == close:
            depth -= 1
            if depth == 0:
                return i
        i += 1
    raise SyntaxError("unbalanced %s" % open_)


def parse_generics_decl(toks, i):
    """toks[i] == '<' : returns (type param names, index after '>')"""
    j = i
    depth = 0
    while True:
        if toks[j] == "<":
            depth += 1
        elif toks[j] == ">":
            depth -= 1
            if depth == 0:
                break
        j += 1
    inner = toks[i + 1:j]
    params = []
    for part in split_top(inner):
        if not part:
            continue
        if part[0].startswith("'"):
            continue
        if part[0] == "const":
            continue
        params.append(part[0])
    return params, j + 1


def field_types(body_toks, params, tuple_like):
    """list of parsed field types; unparsable -> ('unknown', why)"""
    tys = []
    for part in split_top(body_toks):
        part = strip_attrs_vis(part)
        if not part:
            continue
        if not tuple_like:
            if ":" not in part:
                tys.append(("unknown", "field without type: " + " ".join(part[:6])))
                continue
            part = part[part.index(":") + 1:]
        try:
            p = P(part)
            t = parse_type(p)
            if p.peek() is not None:
                raise SyntaxError("trailing tokens " + " ".join(part[p.i:p.i + 4]))
            tys.append(t)
        except (SyntaxError, IndexError, ValueError) as ex:
            tys.append(("unknown", "unparsable type %s (%s)" % (" ".join(part[:12]), ex)))
    return tys


STATIC_MUTS = []


def scan_file(path, defs, aliases, unsafe_impls):
    src = strip_comments_and_strings(open(path, encoding="utf8").read())
    for m in re.finditer(r"\bstatic\s+mut\s+(\w+)", src):
        STATIC_MUTS.append("%s:%s" % (os.path.relpath(path), m.group(1)))
    # drop `#[cfg(test)] mod x { ... }` blocks
    toks = tokenize(src)
    i = 0
    n = len(toks)
    while i < n:
        t = toks[i]
        if t == "#" and toks[i + 1:i + 6] == ["[", "cfg", "(", "test", ")"] and i + 7 < n:
            # skip the attribute and, if a mod/fn/impl block follows, the block
            j = matching(toks, i + 1, "[", "]") + 1
            k = j
            while k < n and toks[k] not in ("{", ";"):
                k += 1
            if k < n and toks[k] == "{":
                i = matching(toks, k, "{", "}") + 1
            else:
                i = k + 1
            continue
        if t == "unsafe" and toks[i + 1] == "impl":
            j = i + 2
            if toks[j] == "<":
                _, j = parse_generics_decl(toks, j)
            trait = toks[j]
            if trait in ("Send", "Sync") and toks[j + 1] == "for":
                unsafe_impls.append((toks[j + 2], trait, os.path.relpath(path)))
            i = j + 1
            continue
        if t in ("struct", "enum", "union") and i + 1 < n and re.match(r"[A-Z]\w*$", toks[i + 1]) and (i == 0 or toks[i - 1] not in (".", "::", "r#")):
            name = toks[i + 1]
            j = i + 2
            params = []
            if j < n and toks[j] == "<":
                params, j = parse_generics_decl(toks, j)
            # where clause before the body
            while j < n and toks[j] not in ("{", "(", ";"):
                j += 1
            fields = []
            if j < n and toks[j] == ";":
                i = j + 1
            elif t == "enum":
                e = matching(toks, j, "{", "}")
                for var in split_top(toks[j + 1:e]):
                    var = strip_attrs_vis(var)
                    if not var:
                        continue
                    if len(var) > 1 and var[1] == "(":
                        c = matching(var, 1, "(", ")")
                        fields += field_types(var[2:c], params, True)
                    elif len(var) > 1 and var[1] == "{":
                        c = matching(var, 1, "{", "}")
                        fields += field_types(var[2:c], params, False)
                i = e + 1
            elif toks[j] == "(":
                e = matching(toks, j, "(", ")")
                fields = field_types(toks[j + 1:e], params, True)
                i = e + 1
            else:
                e = matching(toks, j, "{", "}")
                fields = field_types(toks[j + 1:e], params, False)
                i = e + 1
            defs.setdefault(name, []).append({"params": params, "fields": fields, "file": os.path.relpath(path), "kind": t})
            continue
        if t == "type" and i + 2 < n and re.match(r"[A-Z]\w*$", toks[i + 1]) and (i == 0 or toks[i - 1] in ("pub", ";", "}", ")", "]") or True):
            name = toks[i + 1]
            j = i + 2
            params = []
            if toks[j] == "<":
                params, j = parse_generics_decl(toks, j)
            if toks[j] == "=":
                e = j
                while e < n and toks[e] != ";":
                    e += 1
                try:
                    p = P(toks[j + 1:e])
                    ty = parse_type(p)
                    if p.peek() is None:
                        aliases.setdefault(name, (params, ty))
                except (SyntaxError, IndexError, ValueError):
                    aliases.setdefault(name, (params, ("unknown", "unparsable alias " + name)))
                i = e + 1
                continue
        i += 1


def is_test_file(path):
    b = os.path.basename(path)
    return b in ("test.rs", "tests.rs", "test_lib.rs") or b.endswith("_test.rs") or "/test/" in path or "/tests/" in path or "/test_lib/" in path


def collect(repo):
    del STATIC_MUTS[:]
    defs, aliases, unsafe_impls = {}, {}, []
    roots = [os.path.join(repo, "crates/emmylua_code_analysis/src"), os.path.join(repo, "crates/emmylua_parser/src")]
    files = []
    for root in roots:
        for d, _, names in os.walk(root):
            for nm in sorted(names):
                fp = os.path.join(d, nm)
                if nm.endswith(".rs") and not is_test_file(fp):
                    files.append(fp)
    files.sort()
    for fp in files:
        try:
            scan_file(fp, defs, aliases, unsafe_impls)
        except (SyntaxError, IndexError) as ex:
            raise RuntimeError("cannot scan %s: %s" % (fp, ex))
    return defs, aliases, unsafe_impls, files


# ----------------------------------------------------------------------------- to Coq
def subst_alias(ty, params, args):
    if ty[0] == "path":
        if ty[1] in params and not ty[2]:
            k = params.index(ty[1])
            return args[k] if k < len(args) else ("unknown", "alias arity")
        return ("path", ty[1], [subst_alias(a, params, args) for a in ty[2]])
    if ty[0] == "tuple":
        return ("tuple", [subst_alias(a, params, args) for a in ty[1]])
    if ty[0] == "ref":
        return ("ref", ty[1], subst_alias(ty[2], params, args))
    return ty


class Emitter:
    def __init__(self, defs, aliases, unsafe_impls):
        self.defs, self.aliases = defs, aliases
        self.unsafe = {}
        for name, trait, f in unsafe_impls:
            self.unsafe.setdefault(name, set()).add(trait)
        self.order = []      # def names in emission order
        self.index = {}
        self.unknowns = []   # (owner, why)
        self.externals = {}  # name -> class

    def id_of(self, name):
        if name not in self.index:
            self.index[name] = len(self.order)
            self.order.append(name)
        return self.index[name]

    def pack(self, items):
        out = "TPrim"
        for it in reversed(items):
            out = "(TPair %s %s)" % (it, out)
        return out

    def conv(self, ty, params, owner, depth=0):
        k = ty[0]
        if depth > 40:
            return self.unk(owner, "alias expansion too deep")
        if k == "unknown":
            return self.unk(owner, ty[1])
        if k == "ptr":
            return "(TBad 5)"
        if k == "fn":
            return "TPrim"
        if k == "dyn":
            return "(TDyn %s %s)" % ("true" if ty[1] else "false", "true" if ty[2] else "false")
        if k == "ref":
            inner = self.conv(ty[2], params, owner, depth)
            return "(%s %s)" % ("TRefMut" if ty[1] else "TRef", inner)
        if k == "tuple":
            return self.pack([self.conv(a, params, owner, depth) for a in ty[1]])
        name, args = ty[1], ty[2]
        if name in params and not args:
            return "(TParam %d)" % params.index(name)
        if name == "Self":
            return self.unk(owner, "Self type")
        cargs = [self.conv(a, params, owner, depth) for a in args]
        if name in self.defs:
            return "(TNamed %d %s)" % (self.id_of(name), self.pack(cargs))
        if name in self.aliases:
            aparams, aty = self.aliases[name]
            return self.conv(subst_alias(aty, aparams, args), params, owner, depth + 1)
        cls = None
        if name in PRIM:
            cls, out = "prim", "TPrim"
        elif name in TRANSPARENT:
            cls, out = "transparent", self.pack(cargs)
        elif name in ARC:
            cls, out = "arc", "(TArc %s)" % self.pack(cargs)
        elif name in CELL:
            cls, out = "cell", "(TCell %s)" % self.pack(cargs)
        elif name in MUTEX:
            cls, out = "mutex", "(TMutex %s)" % self.pack(cargs)
        elif name in RWLOCK:
            cls, out = "rwlock", "(TRwLock %s)" % self.pack(cargs)
        elif name in BAD:
            cls, out = "bad", "(TBad %d)" % BAD[name]
        if cls is None:
            return self.unk(owner, "external type %s is not in the reviewed table" % name)
        self.externals[name] = cls
        return out

    def unk(self, owner, why):
        self.unknowns.append((owner, why))
        return "TUnknown"

    def emit(self, root):
        if root not in self.defs:
            raise KeyError(root)
        self.id_of(root)
        bodies = {}
        i = 0
        while i < len(self.order):
            name = self.order[i]
            variants = self.defs[name]
            fields = []
            for v in variants:     # several definitions of one name: all their fields (conservative)
                for f in v["fields"]:
                    fields.append(self.conv(f, v["params"], name))
            bodies[name] = (fields, variants)
            i += 1
        return bodies


def type_str(ty):
    """source-like rendering of a parsed type (for matching against the H3 assertion list)"""
    k = ty[0]
    if k == "path":
        return ty[1] + ("<%s>" % ",".join(type_str(a) for a in ty[2]) if ty[2] else "")
    if k == "tuple":
        return "(%s)" % ",".join(type_str(a) for a in ty[1])
    if k == "ref":
        return "&" + type_str(ty[2])
    return k


def h3_asserted_types(repo):
    """the types asserted Send + Sync by hook H3 (crates/emmylua_code_analysis/src/verif_sync.rs); None when the hook is missing"""
    fp = os.path.join(repo, "crates/emmylua_code_analysis/src/verif_sync.rs")
    lib = os.path.join(repo, "crates/emmylua_code_analysis/src/lib.rs")
    if not os.path.exists(fp) or "mod verif_sync;" not in open(lib, encoding="utf8").read():
        return None
    src = strip_comments_and_strings(open(fp, encoding="utf8").read())
    if not re.search(r"fn\s+assert_sync\s*<\s*T\s*:\s*(Sync\s*\+\s*Send|Send\s*\+\s*Sync)\s*>", src):
        return None
    out = set()
    for m in re.finditer(r"assert_sync::<(.*?)>\(\)", src, re.S):
        t = re.sub(r"\s+", "", m.group(1))
        t = re.sub(r"(\w+::)+", "", t)
        out.add(t)
    return out


def generate(repo, out_path):
    """returns (info dict) ; raises RuntimeError when the anchor is missing"""
    defs, aliases, unsafe_impls, files = collect(repo)
    if "EmmyLuaAnalysis" not in defs:
        raise RuntimeError("anchor missing: struct EmmyLuaAnalysis not found in crates/emmylua_code_analysis/src")
    em = Emitter(defs, aliases, unsafe_impls)
    bodies = em.emit("EmmyLuaAnalysis")
    h = hashlib.sha256()
    lines = []
    lines.append("(** GENERATED by lib/c38_tygraph.py from crates/emmylua_code_analysis/src and crates/emmylua_parser/src — do not edit.")
    lines.append("    The struct/enum field type graph reachable from [EmmyLuaAnalysis]; see C38/Model.v for the meaning of [ty]. *)")
    lines.append("From Coq Require Import List NArith String.")
    lines.append("From EV Require Import C38.Model.")
    lines.append("Import ListNotations.")
    lines.append("Local Open Scope N_scope.")
    lines.append("Local Open Scope string_scope.")
    lines.append("")
    lines.append("Definition defs : list def := [")
    rows = []
    for idx, name in enumerate(em.order):
        fields, variants = bodies[name]
        uns = em.unsafe.get(name, set())
        files_s = ", ".join(sorted({v["file"].split("crates/")[-1] for v in variants}))
        rows.append("  (* %d %s — %s *)\n  {| d_name := \"%s\"; d_unsafe_send := %s; d_unsafe_sync := %s; d_fields := [%s] |}" % (
            idx, name, files_s, name, "true" if "Send" in uns else "false", "true" if "Sync" in uns else "false", "; ".join(fields)))
        h.update((name + "|" + ";".join(fields) + "|" + ",".join(sorted(uns))).encode())
    lines.append(";\n".join(rows))
    lines.append("].")
    lines.append("")
    lines.append("(** every [unsafe impl Send/Sync] found in the two crates (type, trait) *)")
    lines.append("Definition unsafe_impls : list (string * string) := [%s]." % "; ".join(
        '("%s", "%s")' % (n, t) for n, t, _ in sorted(set((n, t, "") for n, t, _ in unsafe_impls))))
    lines.append("")
    lines.append("(** [static mut] items of the two crates (unsynchronised global state) *)")
    lines.append("Definition static_muts : list string := [%s]." % "; ".join('"%s"' % x.split("crates/")[-1] for x in sorted(STATIC_MUTS)))
    lines.append("")
    lines.append("Definition root_id : N := 0.   (* EmmyLuaAnalysis *)")
    lines.append("Definition graph_digest : string := \"%s\"." % h.hexdigest()[:16])
    text = "\n".join(lines) + "\n"
    os.makedirs(os.path.dirname(out_path), exist_ok=True)
    old = open(out_path).read() if os.path.exists(out_path) else None
    if old != text:
        with open(out_path, "w") as fh:
            fh.write(text)
    root_fields = [(f, bodies["EmmyLuaAnalysis"][0][k]) for k, f in enumerate(defs["EmmyLuaAnalysis"][0]["fields"])]
    return {"defs": len(em.order), "files": len(files), "unknowns": em.unknowns, "externals": em.externals,
            "unsafe_impls": sorted(set((n, t) for n, t, _ in unsafe_impls)), "order": em.order, "digest": h.hexdigest()[:16],
            "root_fields": len(root_fields), "changed": old != text, "static_muts": sorted(STATIC_MUTS),
            "bodies": {n: bodies[n][0] for n in em.order},
            "root_field_types": [type_str(f) for f in defs["EmmyLuaAnalysis"][0]["fields"]],
            "dbindex_field_types": [type_str(f) for f in defs.get("DbIndex", [{"fields": []}])[0]["fields"]],
            "multi_defs": sorted(n for n in em.order if len(defs[n]) > 1)}


if __name__ == "__main__":
    import json
    import sys
    repo = sys.argv[1] if len(sys.argv) > 1 else "/repo"
    out = sys.argv[2] if len(sys.argv) > 2 else "/tmp/C38_TyGraph.v"
    info = generate(repo, out)
    print(json.dumps({k: v for k, v in info.items() if k not in ("order", "bodies")}, indent=1))
