"""Translator for C08/C09/C10: regenerates coq/theories/Gen/C09_IndexFields.v from /repo on every run.

Reads (anchors; a missing anchor raises Missing, which the checks report as a broken tie):
  * crates/emmylua_code_analysis/src/db_index/mod.rs : `pub struct DbIndex { .. }` and `impl LuaIndex for DbIndex`
    (which fields `remove` / `clear` delegate to);
  * every `impl LuaIndex for <T>` under db_index/ : the struct `<T>`, its fields and their container kind, and the set of
    `self.<field>` identifiers touched by `remove()` / `clear()` (following calls to the type's own methods).
Only struct field lists and `self.<ident>` occurrences are translated: shapes for which a syntactic translation is exact.
"""
import os
import re


class Missing(Exception):
    pass


CONTAINERS = ("HashMap", "HashSet", "Vec", "BTreeMap", "BTreeSet", "VecDeque", "IndexMap", "SmallVec")


def strip_comments(src):
    src = re.sub(r"/\*.*?\*/", "", src, flags=re.S)
    return re.sub(r"//[^\n]*", "", src)


def match_brace(src, i):
    """src[i] == '{' -> index after the matching '}'"""
    depth = 0
    j = i
    while j < len(src):
        c = src[j]
        if c == "{":
            depth += 1
        elif c == "}":
            depth -= 1
            if depth == 0:
                return j + 1
        j += 1
    raise Missing("unbalanced braces")


def strip_cfg_verif(src):
    """drop items under #[cfg(emmyluals_emmylua_analyzer_rust_verif)] (hooks are not part of the product)"""
    out = []
    i = 0
    pat = re.compile(r"#\[cfg\(emmyluals_emmylua_analyzer_rust_verif\)\]\s*")
    while True:
        m = pat.search(src, i)
        if not m:
            out.append(src[i:])
            break
        out.append(src[i:m.start()])
        b = src.find("{", m.end())
        semi = src.find(";", m.end())
        if b == -1 or (semi != -1 and semi < b):
            i = semi + 1
        else:
            i = match_brace(src, b)
    return "".join(out)


def split_fields(body):
    """`a: T<U, V>, pub b: W,` -> [(a, 'T<U, V>'), (b, 'W')] (top-level commas only)"""
    fields = []
    depth = 0
    cur = ""
    for c in body:
        if c in "<([{":
            depth += 1
        elif c in ">)]}":
            depth -= 1
        if c == "," and depth == 0:
            fields.append(cur)
            cur = ""
        else:
            cur += c
    if cur.strip():
        fields.append(cur)
    out = []
    for f in fields:
        f = re.sub(r"#\[[^\]]*\]", "", f).strip()
        if not f:
            continue
        m = re.match(r"(?:pub(?:\([^)]*\))?\s+)?(\w+)\s*:\s*(.+)$", f, re.S)
        if not m:
            raise Missing("unparsable struct field %r" % f)
        out.append((m.group(1), " ".join(m.group(2).split())))
    return out


def struct_fields(src, name):
    m = re.search(r"\bstruct\s+%s\s*\{" % re.escape(name), src)
    if not m:
        return None
    b = src.index("{", m.start())
    e = match_brace(src, b)
    return split_fields(src[b + 1:e - 1])


def impl_blocks(src, header_re):
    """bodies of all `impl ... {}` blocks whose header matches"""
    out = []
    for m in re.finditer(header_re, src):
        b = src.index("{", m.end() - 1)
        e = match_brace(src, b)
        out.append(src[b + 1:e - 1])
    return out


def fns_of(body):
    """{name: body} of the fns directly in an impl body"""
    fns = {}
    for m in re.finditer(r"\bfn\s+(\w+)\s*(?:<[^>]*>)?\s*\(", body):
        b = body.find("{", m.end())
        semi = body.find(";", m.end())
        if b == -1 or (semi != -1 and semi < b):
            continue
        e = match_brace(body, b)
        fns.setdefault(m.group(1), body[b:e])
    return fns


def touched(fn_body, all_fns, fields):
    """fields `self.<f>` mentioned in fn_body or in the type's own methods it calls (transitively)"""
    seen_fns = set()
    todo = [fn_body]
    hit = set()
    names = {f for f, _ in fields}
    while todo:
        b = todo.pop()
        for m in re.finditer(r"\bself\s*\.\s*(\w+)", b):
            ident = m.group(1)
            if ident in names:
                hit.add(ident)
            elif ident in all_fns and ident not in seen_fns:
                seen_fns.add(ident)
                todo.append(all_fns[ident])
        for m in re.finditer(r"\bSelf\s*::\s*(\w+)", b):
            ident = m.group(1)
            if ident in all_fns and ident not in seen_fns:
                seen_fns.add(ident)
                todo.append(all_fns[ident])
    return sorted(hit)


def reset_by(fn_body, all_fns, fields):
    """fields reset by clear(): `self.f.clear()` or `self.f = ..;` in the body or in the type's own methods it calls"""
    names = {f for f, _ in fields}
    mentioned_fns = set()
    todo = [fn_body]
    hit = set()
    while todo:
        b = todo.pop()
        for m in re.finditer(r"\bself\s*\.\s*(\w+)\s*\.\s*clear\s*\(\s*\)", b):
            if m.group(1) in names:
                hit.add(m.group(1))
        for m in re.finditer(r"\bself\s*\.\s*(\w+)\s*=[^=]", b):
            if m.group(1) in names:
                hit.add(m.group(1))
        for m in re.finditer(r"\bself\s*\.\s*(\w+)\s*\(", b):
            ident = m.group(1)
            if ident in all_fns and ident not in mentioned_fns:
                mentioned_fns.add(ident)
                todo.append(all_fns[ident])
    return sorted(hit)


def kind_of(ty):
    t = ty.replace("hashbrown::", "").replace("std::collections::", "")
    for c in CONTAINERS:
        if re.match(r"%s\s*<" % c, t):
            return "container"
    return "scalar"


def extract(repo):
    base = os.path.join(repo, "crates/emmylua_code_analysis/src/db_index")
    modrs = os.path.join(base, "mod.rs")
    if not os.path.exists(modrs):
        raise Missing("anchor missing: %s" % modrs)
    files = {}
    for root, _, names in os.walk(base):
        for n in names:
            if n.endswith(".rs"):
                p = os.path.join(root, n)
                files[p] = strip_cfg_verif(strip_comments(open(p, encoding="utf8").read()))
    # which types implement LuaIndex, and where
    impls = {}
    for p, src in files.items():
        for m in re.finditer(r"\bimpl\s+(?:super::)?(?:traits::)?LuaIndex\s+for\s+(\w+)\s*\{", src):
            impls[m.group(1)] = p
    if "DbIndex" not in impls:
        raise Missing("anchor missing: impl LuaIndex for DbIndex")
    dbsrc = files[modrs]
    db_fields = struct_fields(dbsrc, "DbIndex")
    if db_fields is None:
        raise Missing("anchor missing: struct DbIndex")
    db_impl = impl_blocks(dbsrc, r"\bimpl\s+LuaIndex\s+for\s+DbIndex\s*\{")
    fns = fns_of(db_impl[0])
    if "remove" not in fns or "clear" not in fns:
        raise Missing("anchor missing: DbIndex::remove / DbIndex::clear")
    db_removed = sorted(set(re.findall(r"\bself\s*\.\s*(\w+)\s*\.\s*remove\s*\(", fns["remove"])))
    db_cleared = sorted(set(re.findall(r"\bself\s*\.\s*(\w+)\s*\.\s*clear\s*\(", fns["clear"])))
    db = []
    for f, ty in db_fields:
        tyname = re.sub(r"<.*", "", ty).strip()
        db.append((f, tyname, tyname in impls))
    indexes = []
    for tyname, p in sorted(impls.items()):
        if tyname == "DbIndex":
            continue
        src = files[p]
        fields = struct_fields(src, tyname)
        if fields is None:
            # the struct may live in a sibling file
            for q, s2 in files.items():
                fields = struct_fields(s2, tyname)
                if fields is not None:
                    break
        if fields is None:
            raise Missing("anchor missing: struct %s" % tyname)
        all_fns = {}
        for q, s2 in files.items():
            for body in impl_blocks(s2, r"\bimpl\s+(?:<[^>]*>\s*)?%s\s*\{" % re.escape(tyname)):
                for k, v in fns_of(body).items():
                    all_fns.setdefault(k, v)
        li = impl_blocks(src, r"\bimpl\s+(?:super::)?(?:traits::)?LuaIndex\s+for\s+%s\s*\{" % re.escape(tyname))
        lfns = fns_of(li[0])
        if "remove" not in lfns or "clear" not in lfns:
            raise Missing("anchor missing: %s::remove / clear" % tyname)
        indexes.append({
            "name": tyname,
            "file": os.path.relpath(p, repo),
            "fields": [(f, kind_of(ty), ty) for f, ty in fields],
            "cleared": reset_by(lfns["clear"], all_fns, fields),
            "removed": touched(lfns["remove"], all_fns, fields),
        })
    return {"db": db, "db_removed": db_removed, "db_cleared": db_cleared, "indexes": indexes}


def cs(s):
    return '"%s"' % s


def to_coq(t):
    out = ["(** GENERATED by lib/index_fields.py from crates/emmylua_code_analysis/src/db_index — do not edit. *)",
           "From Coq Require Import String List Bool.", "Import ListNotations.", "Local Open Scope string_scope.", "",
           "(** field of DbIndex, its type, does the type implement LuaIndex *)",
           "Definition db_fields : list (string * string * bool) :=",
           "  [" + ";\n   ".join("(%s, %s, %s)" % (cs(f), cs(ty), "true" if ix else "false") for f, ty, ix in t["db"]) + "].", "",
           "(** fields DbIndex::remove / DbIndex::clear delegate to *)",
           "Definition db_removed : list string := [" + "; ".join(cs(x) for x in t["db_removed"]) + "].",
           "Definition db_cleared : list string := [" + "; ".join(cs(x) for x in t["db_cleared"]) + "].", "",
           "Inductive fkind := Container | Scalar.",
           "Record index_tbl := mkIndexTbl {",
           "  it_name : string;",
           "  it_fields : list (string * fkind);",
           "  it_cleared : list string;   (* fields touched by clear() *)",
           "  it_removed : list string    (* fields touched by remove() *)",
           "}.", "",
           "Definition indexes : list index_tbl := ["]
    rows = []
    for ix in t["indexes"]:
        rows.append("  (* %s *)\n  mkIndexTbl %s\n    [%s]\n    [%s]\n    [%s]" % (
            ix["file"], cs(ix["name"]),
            "; ".join("(%s, %s)" % (cs(f), "Container" if k == "container" else "Scalar") for f, k, _ in ix["fields"]),
            "; ".join(cs(x) for x in ix["cleared"]), "; ".join(cs(x) for x in ix["removed"])))
    out.append(";\n".join(rows))
    out.append("].")
    return "\n".join(out) + "\n"


def regenerate(repo, coq_dir):
    t = extract(repo)
    path = os.path.join(coq_dir, "theories", "Gen", "C09_IndexFields.v")
    new = to_coq(t)
    old = open(path).read() if os.path.exists(path) else None
    if old != new:
        with open(path, "w") as fh:
            fh.write(new)
    return t


if __name__ == "__main__":
    import sys
    t = regenerate(sys.argv[1] if len(sys.argv) > 1 else "/repo", os.path.join(os.path.dirname(os.path.abspath(__file__)), "..", "coq"))
    for ix in t["indexes"]:
        print(ix["name"], [f for f, k, _ in ix["fields"]], "cleared", ix["cleared"], "removed", ix["removed"])
    print(t["db"], t["db_removed"], t["db_cleared"])
