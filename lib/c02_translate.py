"""C02 translator: call graph of the recursive descent, regenerated from the Rust source.

Reads  <repo>/crates/emmylua_parser/src/{grammar/lua,grammar/doc,parser}/*.rs  (tests excluded) and writes
coq/theories/Gen/C02_Graph.v with
  LIMIT   : MAX_NESTING_LEVEL of parser/lua_parser.rs
  funs    : (id, "ns::name", guarded?, rank)      rank = longest path inside the unguarded sub-graph
  edges   : (caller id, callee id)                over-approximated (an ambiguous name gets every candidate)
The Coq side proves `ranks_decrease` on this data (so every cycle of the descent passes through a guarded
function) and instantiates the generic frame bound with it.

Anchors (missing => AnchorError => the check reports a broken tie):
  * const MAX_NESTING_LEVEL: usize = N
  * LuaParser::enter_level   compares nesting_level with MAX_NESTING_LEVEL before incrementing it
  * LuaDocParser::enter_type_level likewise with type_nesting_level
  * the four guarded functions (lua::parse_sub_expr, lua::parse_stat, doc::parse_type, doc::parse_sub_type)
    call enter_*level first and otherwise only leave_*level / their *_unchecked body / bump
  * parse_chunk contains the progress guard (index comparison followed by p.bump())
"""
import os
import re


class AnchorError(Exception):
    pass


FILES = [
    ("lua", "grammar/lua/mod.rs"), ("lua", "grammar/lua/expr.rs"), ("lua", "grammar/lua/stat.rs"),
    ("doc", "grammar/doc/mod.rs"), ("doc", "grammar/doc/tag.rs"), ("doc", "grammar/doc/types.rs"),
    ("LuaParser", "parser/lua_parser.rs"), ("LuaDocParser", "parser/lua_doc_parser.rs"), ("marker", "parser/marker.rs"),
]
GUARDED = {
    "lua::parse_sub_expr": ("enter_level", "leave_level", "parse_sub_expr_unchecked"),
    "lua::parse_stat": ("enter_level", "leave_level", "parse_stat_unchecked"),
    "doc::parse_type": ("enter_type_level", "leave_type_level", "parse_type_unchecked"),
    "doc::parse_sub_type": ("enter_type_level", "leave_type_level", "parse_sub_type_unchecked"),
}
KEYWORDS = {"if", "while", "for", "match", "loop", "return", "fn", "let", "else", "in", "as", "move", "Some", "None", "Ok", "Err",
            "Box", "Vec", "String", "matches", "unreachable", "assert", "format", "println", "vec"}


def strip_comments_strings(src):
    """replace comments, string and char literals by blanks (keeps offsets and braces honest)"""
    out = []
    i, n = 0, len(src)
    while i < n:
        c = src[i]
        if src.startswith("//", i):
            j = src.find("\n", i)
            j = n if j < 0 else j
            out.append(" " * (j - i))
            i = j
        elif src.startswith("/*", i):
            j = src.find("*/", i + 2)
            j = n if j < 0 else j + 2
            out.append(re.sub(r"[^\n]", " ", src[i:j]))
            i = j
        elif c == '"':
            j = i + 1
            while j < n and src[j] != '"':
                j += 2 if src[j] == "\\" else 1
            out.append('"' + re.sub(r"[^\n]", " ", src[i + 1:j]) + '"')
            i = j + 1
        elif c == "r" and re.match(r'r#*"', src[i:]):
            m = re.match(r'r(#*)"', src[i:])
            close = '"' + m.group(1)
            j = src.find(close, i + len(m.group(0)))
            j = n if j < 0 else j + len(close)
            out.append(re.sub(r"[^\n]", " ", src[i:j]))
            i = j
        elif c == "'" :
            m = re.match(r"'(\\.|[^\\'])'", src[i:])
            if m:
                out.append("' '" + " " * (len(m.group(0)) - 3))
                i += len(m.group(0))
            else:
                out.append(c)   # lifetime
                i += 1
        else:
            out.append(c)
            i += 1
    return "".join(out)


def cut_tests(src):
    m = re.search(r"#\[cfg\(test\)\]\s*mod\s+\w+\s*\{", src)
    return src[:m.start()] if m else src


def functions(src):
    """yield (name, body) of every `fn name ... { body }`"""
    for m in re.finditer(r"\bfn\s+([A-Za-z_]\w*)", src):
        name = m.group(1)
        # find the opening brace of the body (skip the signature; a `;` first means a declaration without body)
        i = m.end()
        depth_paren = 0
        while i < len(src):
            ch = src[i]
            if ch in "([":
                depth_paren += 1
            elif ch in ")]":
                depth_paren -= 1
            elif ch == ";" and depth_paren == 0:
                i = -1
                break
            elif ch == "{" and depth_paren == 0:
                break
            i += 1
        if i < 0 or i >= len(src):
            continue
        j, depth = i, 0
        while j < len(src):
            if src[j] == "{":
                depth += 1
            elif src[j] == "}":
                depth -= 1
                if depth == 0:
                    break
            j += 1
        yield name, src[i + 1:j]


CALL = re.compile(r"(?:\b([A-Za-z_]\w*)\s*::\s*)?(?<![\w!])([A-Za-z_]\w*)\s*(?:::\s*<[^>()]*>\s*)?\(")


def calls(body):
    """(receiver-hint, qualifier, name) for every call-looking occurrence"""
    res = []
    for m in CALL.finditer(body):
        qual, name = m.group(1), m.group(2)
        if name in KEYWORDS:
            continue
        start = m.start(2) if qual is None else m.start(1)
        # receiver: text of the dotted chain before the name, e.g. `self.lua_parser.`
        k = start
        while k > 0 and (body[k - 1].isalnum() or body[k - 1] in "_.") :
            k -= 1
        recv = body[k:start] if start > 0 and body[start - 1] == "." else ""
        res.append((recv, qual, name))
    return res


def scan(repo):
    base = os.path.join(repo, "crates/emmylua_parser/src")
    defs = {}      # "ns::name" -> body
    by_name = {}   # name -> [ns]
    for ns, rel in FILES:
        p = os.path.join(base, rel)
        if not os.path.exists(p):
            raise AnchorError("source file missing: " + rel)
        src = cut_tests(strip_comments_strings(open(p, encoding="utf8").read()))
        for name, body in functions(src):
            key = ns + "::" + name
            # trait default method + impl of the same name: merge bodies
            defs[key] = defs.get(key, "") + "\n" + body
            by_name.setdefault(name, [])
            if ns not in by_name[name]:
                by_name[name].append(ns)
    return defs, by_name


def resolve(ns, recv, qual, name, by_name):
    cands = by_name.get(name)
    if not cands:
        return []
    if qual:
        if qual in ("Self",):
            return [ns + "::" + name] if ns in cands else []
        if qual in cands:
            return [qual + "::" + name]
        if qual[:1].isupper():
            return []            # some other type's associated function (LuaParseError::..., LuaTokenKind::...)
    if recv:
        chain = recv.strip(".").split(".")
        pref = []
        if "lua_parser" in chain:
            pref = ["LuaParser", "marker"]
        elif chain and chain[0] == "self":
            if len(chain) > 1:
                return []        # a field's method (self.lexer.lex(), self.tokens.len(), self.errors.push())
            pref = [ns, "marker"]
        elif chain and chain[-1] in ("p", "parser"):
            pref = {"lua": ["LuaParser", "marker"], "doc": ["LuaDocParser", "marker"],
                    "LuaParser": ["LuaParser", "marker"], "LuaDocParser": ["LuaDocParser", "marker"], "marker": ["marker"]}[ns]
        elif chain and chain[-1] in ("m", "cm", "marker", "condition_m", "m1", "m2", "param", "m_block", "m_return",
                                       "m_param_list", "m_param_name", "expr_cm"):
            pref = ["marker"]
        else:
            return []            # a method of some other value (vec.push(..), text.len(), ...)
        hit = [q + "::" + name for q in pref if q in cands]
        return hit
    # free call: same namespace first, otherwise every namespace that defines the name
    if ns in cands:
        return [ns + "::" + name]
    return [q + "::" + name for q in cands if q in ("lua", "doc")]


def build(repo):
    defs, by_name = scan(repo)
    base = os.path.join(repo, "crates/emmylua_parser/src")
    lp = open(os.path.join(base, "parser/lua_parser.rs"), encoding="utf8").read()
    m = re.search(r"const\s+MAX_NESTING_LEVEL\s*:\s*usize\s*=\s*(\d+)\s*;", lp)
    if not m:
        raise AnchorError("const MAX_NESTING_LEVEL not found in parser/lua_parser.rs (the recursion guard is gone)")
    limit = int(m.group(1))

    def need(key):
        if key not in defs:
            raise AnchorError("function %s not found" % key)
        return defs[key]

    b = need("LuaParser::enter_level")
    if not re.search(r"if\s+self\s*\.\s*nesting_level\s*>=\s*MAX_NESTING_LEVEL\s*\{[^}]*return\s+false", b, re.S) or \
            not re.search(r"return\s+false.*self\s*\.\s*nesting_level\s*\+=\s*1", b, re.S):
        raise AnchorError("LuaParser::enter_level no longer refuses at MAX_NESTING_LEVEL before incrementing")
    b = need("LuaDocParser::enter_type_level")
    if not re.search(r"if\s+self\s*\.\s*type_nesting_level\s*>=\s*MAX_NESTING_LEVEL\s*\{[^}]*return\s+Err", b, re.S) or \
            not re.search(r"return\s+Err.*self\s*\.\s*type_nesting_level\s*\+=\s*1", b, re.S):
        raise AnchorError("LuaDocParser::enter_type_level no longer refuses at MAX_NESTING_LEVEL before incrementing")
    for key, (enter, leave, inner) in GUARDED.items():
        body = need(key)
        ns = key.split("::")[0]
        cs = calls(body)
        names = [c[2] for c in cs]
        if not names or names[0] != enter:
            raise AnchorError("%s does not call %s() first" % (key, enter))
        extra = [x for x in names if x not in (enter, leave, inner, "bump")]
        if extra or inner not in names or leave not in names:
            raise AnchorError("%s is no longer a pure guard wrapper around %s (calls: %s)" % (key, inner, names))
        if not re.search(r"if\s*!\s*p\s*\.\s*%s\s*\(\s*\)\s*\{[^}]*return\s+Err" % enter, body, re.S) and \
                not re.search(r"p\s*\.\s*%s\s*\(\s*\)\s*\?" % enter, body):
            raise AnchorError("%s does not return when %s() refuses" % (key, enter))
        need(ns + "::" + inner)
    b = need("lua::parse_chunk")
    if not re.search(r"let\s+(\w+)\s*=\s*p\s*\.\s*current_token_index\s*\(\s*\)\s*;\s*parse_stats\s*\(\s*p\s*\)\s*;.*"
                     r"if\s+p\s*\.\s*current_token_index\s*\(\s*\)\s*==\s*\1\s*\{.*p\s*\.\s*bump\s*\(\s*\)", b, re.S):
        raise AnchorError("parse_chunk's progress guard (index comparison followed by p.bump()) not found")
    if not re.search(r"while\s+p\s*\.\s*current_token\s*\(\s*\)\s*!=\s*LuaTokenKind\s*::\s*TkEof", b):
        raise AnchorError("parse_chunk's loop condition changed")

    keys = sorted(defs)
    ident = {k: i for i, k in enumerate(keys)}
    edges = set()
    for k in keys:
        ns = k.split("::")[0]
        for recv, qual, name in calls(defs[k]):
            for tgt in resolve(ns, recv, qual, name, by_name):
                if tgt in ident:
                    edges.add((ident[k], ident[tgt]))
    guarded = {ident[k] for k in GUARDED}
    # rank = longest path inside the unguarded sub-graph (0 on a cycle member's first visit: the Coq obligation then fails)
    succ = {}
    for u, v in edges:
        if u not in guarded and v not in guarded:
            succ.setdefault(u, []).append(v)
    rank = {}
    cyc = []
    state = {}

    def dfs(u):
        # iterative DFS with explicit stack
        stack = [(u, iter(succ.get(u, [])))]
        state[u] = 1
        while stack:
            x, it = stack[-1]
            adv = False
            for y in it:
                if state.get(y) == 1:
                    cyc.append((keys[x], keys[y]))
                    continue
                if y not in state:
                    state[y] = 1
                    stack.append((y, iter(succ.get(y, []))))
                    adv = True
                    break
            if not adv:
                rank[x] = 1 + max([rank.get(y, 0) for y in succ.get(x, [])], default=-1)
                state[x] = 2
                stack.pop()

    for i in range(len(keys)):
        if i not in guarded and i not in state:
            dfs(i)
    for i in guarded:
        rank[i] = 0
    return {"limit": limit, "keys": keys, "edges": sorted(edges), "guarded": guarded, "rank": rank, "cycles": cyc}


def render(g):
    lines = ["(** GENERATED by lib/c02_translate.py from crates/emmylua_parser/src/{grammar/lua,grammar/doc,parser}/*.rs — do not edit.",
             "    Call graph of the recursive descent: functions (id, name, guarded by enter_level?, rank) and call edges. *)",
             "From Coq Require Import List String.", "Import ListNotations.", "Local Open Scope string_scope.", "",
             "Definition LIMIT : nat := %d." % g["limit"], "",
             "Definition funs : list (nat * string * bool * nat) := ["]
    rows = []
    for i, k in enumerate(g["keys"]):
        rows.append('  (%d, "%s", %s, %d)' % (i, k, "true" if i in g["guarded"] else "false", g["rank"].get(i, 0)))
    lines.append(";\n".join(rows))
    lines.append("].")
    lines.append("")
    lines.append("Definition edges : list (nat * nat) := [")
    es = ["(%d,%d)" % e for e in g["edges"]]
    chunks = ["  " + "; ".join(es[i:i + 12]) for i in range(0, len(es), 12)]
    lines.append(";\n".join(chunks))
    lines.append("].")
    return "\n".join(lines) + "\n"


def regenerate(repo, out_path):
    g = build(repo)
    txt = render(g)
    old = open(out_path, encoding="utf8").read() if os.path.exists(out_path) else None
    if old != txt:
        os.makedirs(os.path.dirname(out_path), exist_ok=True)
        with open(out_path, "w", encoding="utf8") as fh:
            fh.write(txt)
    return g


if __name__ == "__main__":
    import sys
    g = regenerate(sys.argv[1] if len(sys.argv) > 1 else "/repo", sys.argv[2] if len(sys.argv) > 2 else "/dev/stdout")
    sys.stderr.write("functions=%d edges=%d guarded=%d max_rank=%d cycles=%s\n" % (
        len(g["keys"]), len(g["edges"]), len(g["guarded"]), max(g["rank"].values()), g["cycles"][:5]))
