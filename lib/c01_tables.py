"""Translator for C01/C04: regenerates coq/theories/Gen/C01_Kinds.v from /repo's emmylua_parser sources.

Extracted (data only, shapes for which a syntactic translation is exact):
  * the variant lists of LuaSyntaxKind / LuaTokenKind (ordinal = discriminant; fails if an explicit discriminant appears)
  * LuaFeatures discriminants and the feature set of every LuaLanguageLevel (LexerConfig::new + LuaFeaturesSet::features_*)
  * the keyword table of LuaLexer::name_to_kind
  * green builder: kinds of the three arms of finish_node, is_trivia, is_trivia_whitespace
  * token pump: is_trivia_kind / is_invalid_kind (lua_parser.rs), is_invalid_kind (lua_doc_parser.rs),
    the trivia arms of parse_trivia_tokens and the kinds trimmed by parse_comments
Raises TableError (the check reports a broken tie) when an anchor is missing or reshaped.
"""
import hashlib
import os
import re


class TableError(Exception):
    pass


def _read(repo, rel):
    p = os.path.join(repo, rel)
    if not os.path.exists(p):
        raise TableError("missing source file %s" % rel)
    return open(p, encoding="utf8").read()


def _strip_comments(src):
    src = re.sub(r"//[^\n]*", "", src)
    src = re.sub(r"/\*.*?\*/", "", src, flags=re.S)
    return src


def _body(src, header_re, what):
    """text between the braces following the first match of header_re"""
    m = re.search(header_re, src)
    if not m:
        raise TableError("anchor not found: %s" % what)
    i = src.find("{", m.end() - 1)
    if i < 0:
        raise TableError("no body for %s" % what)
    depth = 0
    for j in range(i, len(src)):
        if src[j] == "{":
            depth += 1
        elif src[j] == "}":
            depth -= 1
            if depth == 0:
                return src[i + 1:j]
    raise TableError("unbalanced braces in %s" % what)


def _enum_variants(src, name):
    body = _strip_comments(_body(src, r"pub\s+enum\s+%s\s*\{" % name, "enum " + name))
    out = []
    for part in body.split(","):
        part = part.strip()
        if not part:
            continue
        part = re.sub(r"#\[[^\]]*\]", "", part).strip()
        if "=" in part:
            raise TableError("enum %s has an explicit discriminant (%s): translator must be revisited" % (name, part))
        if not re.match(r"^[A-Za-z_]\w*$", part):
            raise TableError("enum %s: unexpected variant syntax %r" % (name, part))
        out.append(part)
    return out


# Transcription anchor: the body of LuaLexer::tokenize as it was transcribed into coq/theories/C01/LexModel.v
# ([tokenize_from]: shebang prologue, then the loop).  Code added before/around the loop is reached only by special
# inputs, so a reshaped body is reported as a broken tie (the model must be re-transcribed) instead of being left to sampling.
TOKENIZE_SHAPE = (
    "let mut tokens = vec![]; if self.state == LexerState::Normal && self.reader.current_char() == '#' { "
    "self.reader.eat_while(|ch| ch != '\\n' && ch != '\\r'); tokens.push(LuaTokenData::new( LuaTokenKind::TkShebang, "
    "self.reader.current_range(), )); } while !self.reader.is_eof() { let kind = match self.state { LexerState::Normal => self.lex(), "
    "LexerState::String(quote) => self.lex_string(quote), LexerState::LongString(sep) => self.lex_long_string(sep), "
    "LexerState::LongComment(sep) => { self.lex_long_string(sep); LuaTokenKind::TkLongComment } }; if kind == LuaTokenKind::TkEof { break; } "
    "tokens.push(LuaTokenData::new(kind, self.reader.current_range())); } tokens")
# likewise LuaParser::parse: lexer on the whole text, parse_chunk, builder on the same text
PARSE_SHAPE_MARKS = ["LuaLexer::new(Reader::new(text), config.lexer_config(), Some(&mut errors))", "lexer.tokenize()",
                     "parse_chunk(&mut parser)", "parser.origin_text()", "builder.build()", "builder.finish()"]


def _squash(s):
    return re.sub(r"[\s,]+", "", s)


def check_shapes(lx_src, lp_src):
    body = _strip_comments(_body(lx_src, r"pub fn tokenize\(&mut self\) -> Vec<LuaTokenData>\s*\{", "LuaLexer::tokenize"))
    if _squash(body) != _squash(TOKENIZE_SHAPE):
        raise TableError("LuaLexer::tokenize no longer has the transcribed shape (shebang prologue + loop): the lexer model "
                         "coq/theories/C01/LexModel.v (tokenize_from) must be re-transcribed; body now: %s" % re.sub(r"\s+", " ", body).strip()[:600])
    pbody = _strip_comments(_body(lp_src, r"pub fn parse\(text: &'a str, config: ParserConfig\) -> LuaSyntaxTree\s*\{", "LuaParser::parse"))
    sq = _squash(pbody)
    pos = 0
    for m in PARSE_SHAPE_MARKS:
        i = sq.find(_squash(m), pos)
        if i < 0:
            raise TableError("LuaParser::parse no longer contains %r in the transcribed order (lex whole text, parse_chunk, build, finish)" % m)
        pos = i


def _kinds_in(text, prefix):
    return re.findall(r"%s::(\w+)" % prefix, text)


def extract(repo, check_transcription_anchors=True):
    base = "crates/emmylua_parser/src/"
    sk_src = _read(repo, base + "kind/lua_syntax_kind.rs")
    tk_src = _read(repo, base + "kind/lua_token_kind.rs")
    ft_src = _read(repo, base + "kind/lua_features.rs")
    lc_src = _read(repo, base + "lexer/lexer_config.rs")
    lx_src = _read(repo, base + "lexer/lua_lexer.rs")
    gb_src = _read(repo, base + "syntax/tree/lua_green_builder.rs")
    lp_src = _read(repo, base + "parser/lua_parser.rs")
    dp_src = _read(repo, base + "parser/lua_doc_parser.rs")
    lv_src = _read(repo, base + "kind/lua_language_level.rs")
    digest = hashlib.sha256("\0".join([sk_src, tk_src, ft_src, lc_src, lx_src, gb_src, lp_src, dp_src, lv_src]).encode()).hexdigest()[:16]

    if check_transcription_anchors:
        check_shapes(lx_src, lp_src)
    t = {"digest": digest}
    t["syntax_kinds"] = _enum_variants(sk_src, "LuaSyntaxKind")
    t["token_kinds"] = _enum_variants(tk_src, "LuaTokenKind")
    if t["syntax_kinds"][0] != "None" or t["token_kinds"][0] != "None":
        raise TableError("kind enums no longer start with None")

    # features: first has explicit discriminant 1, the rest count up
    fbody = _strip_comments(_body(ft_src, r"pub\s+enum\s+LuaFeatures\s*\{", "enum LuaFeatures"))
    feats = []
    cur = None
    for part in fbody.split(","):
        part = part.strip()
        if not part:
            continue
        m = re.match(r"^(\w+)\s*(?:=\s*(\d+))?$", part)
        if not m:
            raise TableError("LuaFeatures: unexpected variant syntax %r" % part)
        if m.group(2) is not None:
            cur = int(m.group(2))
        elif cur is None:
            cur = 0
        feats.append((m.group(1), cur))
        cur += 1
    t["features"] = feats
    fidx = dict(feats)

    # feature sets
    sets = {}
    for m in re.finditer(r"pub fn (features_\w+)\(\) -> Self", ft_src):
        name = m.group(1)
        body = _strip_comments(_body(ft_src, r"pub fn %s\(\) -> Self\s*\{" % name, name))
        basem = re.search(r"LuaFeaturesSet::(features_\w+)\(\)", body)
        adds = re.findall(r"set\.add\(LuaFeatures::(\w+)\)", body)
        if not basem and "LuaFeaturesSet::default()" not in body:
            raise TableError("feature set %s: no base" % name)
        sets[name] = (basem.group(1) if basem else None, adds)

    def resolve(name, seen=()):
        if name in seen or name not in sets:
            raise TableError("feature set %s unresolved" % name)
        b, adds = sets[name]
        r = resolve(b, seen + (name,)) if b else []
        for a in adds:
            if a not in fidx:
                raise TableError("unknown feature %s" % a)
            if a not in r:
                r.append(a)
        return r

    levels = _enum_variants(re.sub(r"#\[default\]", "", lv_src), "LuaLanguageLevel")
    cfg_body = _body(lc_src, r"pub fn new\(language_level: LuaLanguageLevel\) -> Self\s*\{", "LexerConfig::new")
    lvl_sets = dict(re.findall(r"LuaLanguageLevel::(\w+)\s*=>\s*LuaFeaturesSet::(features_\w+)\(\)", cfg_body))
    t["levels"] = []
    for lv in levels:
        if lv not in lvl_sets:
            raise TableError("LexerConfig::new has no arm for level %s" % lv)
        t["levels"].append((lv, resolve(lvl_sets[lv])))
    # support(): bit test
    if not re.search(r"self\.0 & \(1 << \(symbol as u64\)\) != 0", ft_src):
        raise TableError("LuaFeaturesSet::support reshaped")

    # keyword table
    kbody = _body(lx_src, r"fn name_to_kind\(&self, name: &str\) -> LuaTokenKind\s*\{", "name_to_kind")
    kws = []
    for m in re.finditer(r'"(\w+)"\s*=>\s*(LuaTokenKind::(\w+)|\{)', kbody):
        if m.group(3):
            kws.append((m.group(1), m.group(3), None))
        else:
            # conditional arm: "goto" => { if self.support(LuaFeatures::Goto) { TkGoto } else { TkName } }
            rest = kbody[m.end():]
            mm = re.match(r"\s*if self\.support\(LuaFeatures::(\w+)\)\s*\{\s*LuaTokenKind::(\w+)\s*\}\s*else\s*\{\s*LuaTokenKind::(\w+)\s*\}", rest)
            if not mm:
                raise TableError("name_to_kind: conditional arm for %r reshaped" % m.group(1))
            if mm.group(3) != "TkName":
                raise TableError("name_to_kind: conditional arm else-kind is not TkName")
            kws.append((m.group(1), mm.group(2), mm.group(1)))
    if not re.search(r"_\s*=>\s*LuaTokenKind::TkName", kbody):
        raise TableError("name_to_kind: default arm is not TkName")
    t["keywords"] = kws

    # green builder
    fn = _body(gb_src, r"pub fn finish_node\(&mut self\)\s*\{", "finish_node")
    arms = re.findall(r"((?:LuaSyntaxKind::\w+\s*\|?\s*)+)=>\s*\{", fn)
    if len(arms) != 2:
        raise TableError("finish_node: expected two kind arms + default, found %d" % len(arms))
    t["gb_pull"] = _kinds_in(arms[0], "LuaSyntaxKind")
    t["gb_wsonly"] = _kinds_in(arms[1], "LuaSyntaxKind")
    if "is_trivia(self.children[child_start - 1])" not in fn.replace("\n", " ") or fn.count("is_trivia_whitespace") != 2 or len(re.findall(r"self\.is_trivia\(", fn)) != 3:
        raise TableError("finish_node: trivia scans reshaped")
    tr = _body(gb_src, r"fn is_trivia\(&self, pos: usize\) -> bool\s*\{", "is_trivia")
    t["gb_trivia_tok"] = _kinds_in(tr, "LuaTokenKind")
    t["gb_trivia_node"] = _kinds_in(tr, "LuaSyntaxKind")
    tw = _body(gb_src, r"pub fn is_trivia_whitespace\(&self, pos: usize\) -> bool\s*\{", "is_trivia_whitespace")
    t["gb_ws_tok"] = _kinds_in(tw, "LuaTokenKind")
    if _kinds_in(tw, "LuaSyntaxKind"):
        raise TableError("is_trivia_whitespace now mentions node kinds")

    # token pump
    t["pump_trivia"] = _kinds_in(_body(lp_src, r"\nfn is_trivia_kind\(kind: LuaTokenKind\) -> bool\s*\{", "is_trivia_kind"), "LuaTokenKind")
    t["pump_invalid"] = _kinds_in(_body(lp_src, r"\nfn is_invalid_kind\(kind: LuaTokenKind\) -> bool\s*\{", "is_invalid_kind"), "LuaTokenKind")
    t["doc_invalid"] = _kinds_in(_body(dp_src, r"\nfn is_invalid_kind\(kind: LuaTokenKind\) -> bool\s*\{", "doc is_invalid_kind"), "LuaTokenKind")
    pt = _body(lp_src, r"fn parse_trivia_tokens\(&mut self, next_index: usize\)\s*\{", "parse_trivia_tokens")
    arms = re.findall(r"\n\s*((?:LuaTokenKind::\w+\s*\|?\s*)+)=>\s*\{", pt)
    if len(arms) < 3:
        raise TableError("parse_trivia_tokens: arms reshaped")
    t["pt_comment"] = _kinds_in(arms[0], "LuaTokenKind")
    t["pt_eol"] = _kinds_in(arms[1], "LuaTokenKind")
    # the inner inline-comment scan has its own arms; the whitespace arm is the one with TkShebang
    ws = [a for a in arms if "TkShebang" in a]
    if len(ws) != 1:
        raise TableError("parse_trivia_tokens: whitespace arm not found")
    t["pt_ws"] = _kinds_in(ws[0], "LuaTokenKind")
    pc = _body(lp_src, r"fn parse_comments\(&mut self, comment_tokens: &\[LuaTokenData\]\)\s*\{", "parse_comments")
    mm = re.search(r"matches!\(\s*comment_tokens\[i\]\.kind,\s*((?:LuaTokenKind::\w+\s*\|?\s*)+)\)", pc)
    if not mm:
        raise TableError("parse_comments: trailing-trivia test reshaped")
    t["pc_trim"] = _kinds_in(mm.group(1), "LuaTokenKind")
    return t


def _nlist(xs):
    return "[" + "; ".join(str(x) for x in xs) + "]"


def render(t):
    sk = {n: i for i, n in enumerate(t["syntax_kinds"])}
    tk = {n: i for i, n in enumerate(t["token_kinds"])}
    fx = dict(t["features"])

    def skl(names):
        for n in names:
            if n not in sk:
                raise TableError("unknown syntax kind %s" % n)
        return _nlist("SK_%s" % n for n in names)

    def tkl(names):
        for n in names:
            if n not in tk:
                raise TableError("unknown token kind %s" % n)
        return _nlist("TK_%s" % n for n in names)

    o = []
    o.append("(** GENERATED by /verif/lib/c01_tables.py from /repo/crates/emmylua_parser — DO NOT EDIT\n"
             "    (regenerated on every run of checks C01/C04).  source digest %s *)" % t["digest"])
    o.append("From Coq Require Import List NArith.\nImport ListNotations.\nLocal Open Scope N_scope.\n")
    o.append("(** [enum LuaSyntaxKind] (repr u16, ordinal = discriminant) *)")
    for n, i in sk.items():
        o.append("Definition SK_%s : N := %d." % (n, i))
    o.append("Definition syntax_kind_count : N := %d.\n" % len(sk))
    o.append("(** [enum LuaTokenKind] *)")
    for n, i in tk.items():
        o.append("Definition TK_%s : N := %d." % (n, i))
    o.append("Definition token_kind_count : N := %d.\n" % len(tk))
    o.append("(** [enum LuaFeatures] discriminants *)")
    for n, i in t["features"]:
        o.append("Definition F_%s : N := %d." % (n, i))
    o.append("\n(** feature sets per [LuaLanguageLevel] ([LexerConfig::new]); levels are numbered in declaration order *)")
    for i, (lv, fs) in enumerate(t["levels"]):
        o.append("Definition L_%s : N := %d." % (lv, i))
    o.append("Definition level_count : N := %d." % len(t["levels"]))
    o.append("Definition level_features (l : N) : list N :=")
    for i, (lv, fs) in enumerate(t["levels"]):
        o.append("  %s l =? %d then %s" % ("if" if i == 0 else "else if", i, _nlist("F_%s" % f for f in fs)))
    o.append("  else [].\n")
    o.append("(** [LuaLexer::name_to_kind]: (name as code points, kind, feature gate: 0 = unconditional) ; default TkName *)")
    rows = []
    for name, kind, feat in t["keywords"]:
        if kind not in tk:
            raise TableError("unknown token kind %s" % kind)
        if feat is not None and feat not in fx:
            raise TableError("unknown feature %s" % feat)
        rows.append("  (%s, TK_%s, %s) (* %s *)" % (_nlist(ord(c) for c in name), kind, ("F_%s" % feat) if feat else "0", name))
    o.append("Definition keyword_table : list (list N * N * N) := [\n%s\n]." % ";\n".join(rows))
    o.append("\n(** green builder [finish_node]: arms, [is_trivia], [is_trivia_whitespace] *)")
    o.append("Definition gb_pull_kinds : list N := %s." % skl(t["gb_pull"]))
    o.append("Definition gb_wsonly_kinds : list N := %s." % skl(t["gb_wsonly"]))
    o.append("Definition gb_trivia_tokens : list N := %s." % tkl(t["gb_trivia_tok"]))
    o.append("Definition gb_trivia_nodes : list N := %s." % skl(t["gb_trivia_node"]))
    o.append("Definition gb_ws_tokens : list N := %s." % tkl(t["gb_ws_tok"]))
    o.append("\n(** token pump (lua_parser.rs, lua_doc_parser.rs) *)")
    o.append("Definition pump_trivia_kinds : list N := %s." % tkl(t["pump_trivia"]))
    o.append("Definition pump_invalid_kinds : list N := %s." % tkl(t["pump_invalid"]))
    o.append("Definition doc_invalid_kinds : list N := %s." % tkl(t["doc_invalid"]))
    o.append("Definition pt_comment_kinds : list N := %s." % tkl(t["pt_comment"]))
    o.append("Definition pt_eol_kinds : list N := %s." % tkl(t["pt_eol"]))
    o.append("Definition pt_ws_kinds : list N := %s." % tkl(t["pt_ws"]))
    o.append("Definition pc_trim_kinds : list N := %s." % tkl(t["pc_trim"]))
    return "\n".join(o) + "\n"


def regenerate(repo, out_path):
    """returns (tables, changed); the tables are written even when a transcription anchor no longer matches
    (the anchor failure is raised afterwards, so that the rest of the check can still run in deep mode)"""
    t = extract(repo, check_transcription_anchors=False)
    txt = render(t)
    old = open(out_path, encoding="utf8").read() if os.path.exists(out_path) else None
    if old != txt:
        os.makedirs(os.path.dirname(out_path), exist_ok=True)
        tmp = out_path + ".tmp%d" % os.getpid()
        with open(tmp, "w", encoding="utf8") as fh:
            fh.write(txt)
        os.replace(tmp, out_path)
        changed = True
    else:
        changed = False
    extract(repo, check_transcription_anchors=True)
    return t, changed


if __name__ == "__main__":
    import sys
    repo = sys.argv[1] if len(sys.argv) > 1 else "/repo"
    out = sys.argv[2] if len(sys.argv) > 2 else os.path.join(os.path.dirname(os.path.dirname(os.path.abspath(__file__))), "coq/theories/Gen/C01_Kinds.v")
    t, ch = regenerate(repo, out)
    print("C01_Kinds.v %s (digest %s, %d syntax kinds, %d token kinds)" % ("rewritten" if ch else "unchanged", t["digest"], len(t["syntax_kinds"]), len(t["token_kinds"])))
