"""Translator for C20/C21: regenerates coq/theories/Gen/C20_Diag.v from /repo's current source.

Read off the source (syntactic shapes only; anything else raises Anchor, which the plugin turns into a broken tie):
  * crates/emmylua_code_analysis/src/diagnostic/lua_diagnostic_code.rs
      - `pub enum DiagnosticCode { ... }`            -> Inductive code, all_codes, code_name (macro's to_kebab_case)
      - `fn get_default_severity` match table         -> default_severity
      - `fn is_code_default_enable` match table       -> default_enable
  * crates/emmylua_diagnostic_macro/src/lib.rs        -> only checked for the anchor `fn to_kebab_case`
  * crates/emmylua_parser/src/kind/lua_language_level.rs `enum LuaLanguageLevel` (derive(PartialOrd): declaration order)
  * crates/emmylua_code_analysis/src/diagnostic/checker/mod.rs
      - `fn check_file`: the ordered `run_check::<..>` list
      - `fn is_checker_enable_by_code`: the ORDER of the six tests (chain_order)
      - `fn get_severity`, `fn add_diagnostic`: anchors only (shape checks)
  * every checker's `impl Checker for T { const CODES: &[DiagnosticCode] = &[..]; }` and the set of
    `DiagnosticCode::X` identifiers mentioned anywhere in the checker's module (over-approximation of what it can emit);
    for AnalyzeErrorChecker the kinds given to `AnalyzeError::new(..)` / `AnalyzeError { kind: .. }` in the analyzers.
  * crates/emmylua_code_analysis/src/diagnostic/lua_diagnostic.rs `fn diagnose_file`: order of the gates (anchors)
"""
import glob
import hashlib
import os
import re


class Anchor(Exception):
    pass


def _read(path):
    if not os.path.exists(path):
        raise Anchor("missing file %s" % path)
    return open(path, encoding="utf8").read()


def strip_comments(src, keep_strings=False):
    """remove // and /* */ comments and (unless keep_strings) string literals' contents (keeps structure)"""
    out = []
    i, n = 0, len(src)
    while i < n:
        if src.startswith("//", i):
            j = src.find("\n", i)
            i = n if j < 0 else j
        elif src.startswith("/*", i):
            j = src.find("*/", i + 2)
            i = n if j < 0 else j + 2
        elif src[i] == '"':
            j = i + 1
            while j < n and src[j] != '"':
                j += 2 if src[j] == "\\" else 1
            out.append(src[i:j + 1] if keep_strings else '""')
            i = j + 1
        elif src[i] == "'" and i + 2 < n and (src[i + 2] == "'" or (src[i + 1] == "\\" and src.find("'", i + 2) - i <= 4)):
            j = src.find("'", i + 2 if src[i + 1] == "\\" else i + 1)
            out.append("' '")
            i = j + 1
        else:
            out.append(src[i])
            i += 1
    return "".join(out)


def balanced(src, start, open_ch="{", close_ch="}"):
    """src[start] == open_ch; return index just after the matching close"""
    assert src[start] == open_ch
    d = 0
    for i in range(start, len(src)):
        if src[i] == open_ch:
            d += 1
        elif src[i] == close_ch:
            d -= 1
            if d == 0:
                return i + 1
    raise Anchor("unbalanced braces")


def fn_body(src, name, what):
    m = re.search(r"\bfn\s+%s\b[^{;]*\{" % re.escape(name), src)
    if not m:
        raise Anchor("anchor `fn %s` not found in %s" % (name, what))
    s = m.end() - 1
    e = balanced(src, s)
    return src[s + 1:e - 1]


def enum_variants(src, name, what):
    m = re.search(r"\benum\s+%s\s*\{" % re.escape(name), src)
    if not m:
        raise Anchor("anchor `enum %s` not found in %s" % (name, what))
    s = m.end() - 1
    body = src[s + 1:balanced(src, s) - 1]
    body = re.sub(r"#\[[^\]]*\]", "", body)
    vs = []
    for part in body.split(","):
        p = part.strip()
        if not p:
            continue
        if not re.fullmatch(r"[A-Za-z_]\w*", p):
            raise Anchor("enum %s has a non-unit variant %r" % (name, p))
        vs.append(p)
    return vs


def kebab(ident):
    """emmylua_diagnostic_macro::to_kebab_case"""
    r = []
    for i, c in enumerate(ident):
        if c.isupper() and i != 0:
            r.append("-")
        r.append(c.lower())
    return "".join(r)


def match_arms(body, enum, what):
    """arms of the single `match code { ... }` of a table function: list of (variant|'_' , expr)"""
    m = re.search(r"\bmatch\s+\w+\s*\{", body)
    if not m:
        raise Anchor("no `match` in %s" % what)
    s = m.end() - 1
    inner = body[s + 1:balanced(body, s) - 1]
    rest = (body[:m.start()] + body[balanced(body, s):]).strip()
    if rest:
        raise Anchor("%s is not a bare match table any more (extra code: %r)" % (what, rest[:80]))
    arms = []
    for part in inner.split(","):
        p = part.strip()
        if not p:
            continue
        mm = re.fullmatch(r"(?:%s::(\w+)|(_))\s*=>\s*(.+)" % enum, p, re.S)
        if not mm:
            raise Anchor("unrecognised arm in %s: %r" % (what, p[:80]))
        arms.append((mm.group(1) or "_", mm.group(3).strip()))
    return arms


SEVS = ["ERROR", "WARNING", "INFORMATION", "HINT"]


def extract(repo):
    ca = os.path.join(repo, "crates/emmylua_code_analysis/src")
    t = {}
    code_rs = strip_comments(_read(os.path.join(ca, "diagnostic/lua_diagnostic_code.rs")))
    codes = enum_variants(code_rs, "DiagnosticCode", "lua_diagnostic_code.rs")
    if "None" not in codes:
        raise Anchor("DiagnosticCode has no `None` variant any more")
    t["codes"] = codes
    macro = _read(os.path.join(repo, "crates/emmylua_diagnostic_macro/src/lib.rs"))
    if "fn to_kebab_case" not in macro or 'c.is_uppercase() && i != 0' not in macro:
        raise Anchor("emmylua_diagnostic_macro::to_kebab_case changed shape")
    t["names"] = {c: kebab(c) for c in codes}
    lvl_rs = strip_comments(_read(os.path.join(repo, "crates/emmylua_parser/src/kind/lua_language_level.rs")))
    if not re.search(r"derive\([^)]*\bPartialOrd\b[^)]*\)\s*\]\s*pub\s+enum\s+LuaLanguageLevel", lvl_rs):
        raise Anchor("LuaLanguageLevel no longer derives PartialOrd (declaration order)")
    t["levels"] = enum_variants(lvl_rs, "LuaLanguageLevel", "lua_language_level.rs")
    # default severity
    sev = {}
    sev_default = None
    for v, e in match_arms(fn_body(code_rs, "get_default_severity", "lua_diagnostic_code.rs"), "DiagnosticCode", "get_default_severity"):
        mm = re.fullmatch(r"DiagnosticSeverity::(\w+)", e)
        if not mm or mm.group(1) not in SEVS:
            raise Anchor("get_default_severity arm %s => %s not understood" % (v, e))
        if v == "_":
            sev_default = mm.group(1)
        elif v in sev:
            pass  # first arm wins in Rust
        else:
            if v not in codes:
                raise Anchor("get_default_severity mentions unknown code %s" % v)
            sev[v] = mm.group(1)
    if sev_default is None and set(sev) != set(codes):
        raise Anchor("get_default_severity has neither `_` arm nor all codes")
    t["severity"] = {c: sev.get(c, sev_default) for c in codes}
    # default enable
    en = {}
    en_default = None
    for v, e in match_arms(fn_body(code_rs, "is_code_default_enable", "lua_diagnostic_code.rs"), "DiagnosticCode", "is_code_default_enable"):
        if e in ("true", "false"):
            val = ("const", e)
        else:
            mm = re.fullmatch(r"level\s*(>=|>|<=|<|==)\s*LuaLanguageLevel::(\w+)", e)
            if not mm or mm.group(2) not in t["levels"]:
                raise Anchor("is_code_default_enable arm %s => %s not understood" % (v, e))
            val = ("cmp", mm.group(1), mm.group(2))
        if v == "_":
            en_default = val
        elif v not in en:
            if v not in codes:
                raise Anchor("is_code_default_enable mentions unknown code %s" % v)
            en[v] = val
    if en_default is None and set(en) != set(codes):
        raise Anchor("is_code_default_enable has neither `_` arm nor all codes")
    t["enable"] = {c: en.get(c, en_default) for c in codes}

    # ---- checker/mod.rs
    mod_raw = _read(os.path.join(ca, "diagnostic/checker/mod.rs"))
    mod_rs = strip_comments(mod_raw)
    cf = fn_body(mod_rs, "check_file", "checker/mod.rs")
    run = re.findall(r"run_check::<\s*([\w:\s]+?)\s*>\s*\(", cf)
    leftovers = re.sub(r"run_check::<\s*[\w:\s]+?\s*>\s*\(\s*context\s*,\s*semantic_model\s*,?\s*\)\s*;", "", cf).strip()
    if not run or leftovers != "Some(())":
        raise Anchor("check_file is no longer a plain list of run_check::<T>(context, semantic_model) calls: %r" % leftovers[:120])
    rc = fn_body(mod_rs, "run_check", "checker/mod.rs")
    if not re.search(r"T::CODES\s*\.iter\(\)\s*\.any\(\|code\|\s*context\.is_checker_enable_by_code\(code\)\)", rc) or "T::check(context, semantic_model)" not in rc:
        raise Anchor("run_check gate changed shape")
    checkers = []
    cdir = os.path.join(ca, "diagnostic/checker")
    for c in run:
        parts = [p.strip() for p in c.split("::")]
        ty, mods = parts[-1], parts[:-1]
        p = os.path.join(cdir, *mods)
        cands = [x for x in (p + ".rs", os.path.join(p, "mod.rs")) if os.path.exists(x)]
        if len(cands) != 1:
            raise Anchor("cannot locate module of checker %s" % c)
        f = cands[0]
        s = strip_comments(_read(f))
        m = re.search(r"impl\s+Checker\s+for\s+%s\s*\{\s*const\s+CODES\s*:\s*&\[DiagnosticCode\]\s*=\s*&\[(.*?)\]\s*;" % ty, s, re.S)
        if not m:
            raise Anchor("`impl Checker for %s { const CODES ..` not found in %s" % (ty, f))
        kc = re.findall(r"DiagnosticCode::(\w+)", m.group(1))
        if re.sub(r"DiagnosticCode::\w+|[\s,]", "", m.group(1)):
            raise Anchor("CODES of %s is not a literal list" % ty)
        files = [f]
        if f.endswith("mod.rs"):
            files = sorted(glob.glob(os.path.join(os.path.dirname(f), "**", "*.rs"), recursive=True))
        ment = []
        for ff in files:
            for x in re.findall(r"DiagnosticCode::(\w+)", strip_comments(_read(ff))):
                if x not in ment and x in codes:
                    ment.append(x)
        dynamic = False
        if ty == "AnalyzeErrorChecker":
            # it forwards the AnalyzeError records produced by the analyzers: collect their kinds
            for ff in sorted(glob.glob(os.path.join(ca, "**", "*.rs"), recursive=True)):
                if "/test/" in ff or ff.endswith("_test.rs") or "/diagnostic/checker/" in ff or ff.endswith("db_index/diagnostic/analyze_error.rs"):
                    continue  # tests, the checkers themselves, and the definition of AnalyzeError (its `new(kind, ..)`)
                ss = strip_comments(_read(ff))
                for mm in re.finditer(r"AnalyzeError::new\(\s*([^,]+),", ss):
                    k = re.fullmatch(r"DiagnosticCode::(\w+)", mm.group(1).strip())
                    if not k:
                        if re.fullmatch(r"kind", mm.group(1).strip()) and ff.endswith("analyze_error.rs"):
                            continue
                        raise Anchor("AnalyzeError::new with a non-literal kind in %s: %r" % (ff, mm.group(1)))
                    if k.group(1) not in ment:
                        ment.append(k.group(1))
                for mm in re.finditer(r"AnalyzeError\s*\{([^}]*)\}", ss):
                    if "kind" not in mm.group(1):
                        continue
                    k = re.search(r"kind\s*:\s*DiagnosticCode::(\w+)", mm.group(1))
                    if not k:
                        if re.search(r"\bkind\s*,", mm.group(1)) and ff.endswith("analyze_error.rs"):
                            continue
                        raise Anchor("AnalyzeError { kind } with a non-literal kind in %s" % ff)
                    if k.group(1) not in ment:
                        ment.append(k.group(1))
        for x in kc:
            if x not in codes:
                raise Anchor("checker %s lists unknown code %s" % (ty, x))
        checkers.append({"name": ty, "codes": kc, "emits": ment, "file": os.path.relpath(f, repo)})
    t["checkers"] = checkers

    # ---- the precedence chain: order of the tests in is_checker_enable_by_code
    ch = fn_body(mod_rs, "is_checker_enable_by_code", "checker/mod.rs")
    tests = [
        ("FileEnable", r"if\s+diagnostic_index\.is_file_enabled\(&file_id,\s*code\)\s*\{\s*return\s+true;\s*\}"),
        ("WsDisable", r"if\s+self\.config\.workspace_disabled\.contains\(code\)\s*\{\s*return\s+false;\s*\}"),
        ("Meta", r"if\s+module_index\.is_meta_file\(&file_id\)\s*\{\s*return\s+false;\s*\}"),
        ("FileDisable", r"if\s+diagnostic_index\.is_file_disabled\(&file_id,\s*code\)\s*\{\s*return\s+false;\s*\}"),
        ("WsEnable", r"if\s+self\.config\.workspace_enabled\.contains\(code\)\s*\{\s*return\s+true;\s*\}"),
        ("Default", r"is_code_default_enable\(code,\s*self\.config\.level\)\s*$"),
    ]
    pos = []
    rest = ch
    for name, rx in tests:
        m = re.search(rx, ch)
        if not m:
            raise Anchor("is_checker_enable_by_code: test %s not found / changed shape" % name)
        pos.append((m.start(), name))
        rest = rest.replace(m.group(0), "")
    rest = re.sub(r"let\s+\w+\s*=\s*[\w.()&]+;", "", rest).strip()
    if rest:
        raise Anchor("is_checker_enable_by_code contains code the translator does not understand: %r" % rest[:160])
    order = [n for _, n in sorted(pos)]
    if order[-1] != "Default":
        raise Anchor("is_checker_enable_by_code: the default test is not last")
    t["chain"] = order[:-1]

    gs = fn_body(mod_rs, "get_severity", "checker/mod.rs")
    if not re.search(r"if\s+let\s+Some\(severity\)\s*=\s*self\.config\.severity\.get\(&code\)\s*\{\s*return\s+Some\(\*severity\);\s*\}\s*Some\(get_default_severity\(code\)\)\s*$", gs.strip()):
        raise Anchor("get_severity changed shape")
    ad = fn_body(mod_rs, "add_diagnostic", "checker/mod.rs")
    i1 = ad.find("if !self.is_checker_enable_by_code(&code)")
    i2 = ad.find("if !self.should_report_diagnostic(&code, &range)")
    i3 = ad.find("self.diagnostics.push(diagnostic)")
    if not (0 <= i1 < i2 < i3) or "severity: self.get_severity(code)" not in ad or "code.get_name().to_string()" not in ad \
            or not re.search(r"range:\s*self\.translate_range\(range\)\.unwrap_or\(", ad):
        raise Anchor("add_diagnostic changed shape")
    # ---- get_diagnostics: plain move of the vector, or order-preserving removal of exact duplicates
    gd = fn_body(mod_rs, "get_diagnostics", "checker/mod.rs").strip()
    if re.fullmatch(r"self\.diagnostics", gd):
        t["dedup"] = False
    elif (re.search(r"for\s+diagnostic\s+in\s+self\.diagnostics\s*\{", gd) and re.search(r"\.any\(\|&i\|\s*diagnostics\[i\]\s*==\s*diagnostic\)\s*\{\s*continue;\s*\}", gd)
          and "diagnostics.push(diagnostic);" in gd and gd.endswith("diagnostics") and gd.count("continue;") == 1 and "return" not in gd):
        t["dedup"] = True
    else:
        raise Anchor("get_diagnostics changed shape")
    for ff in sorted(glob.glob(os.path.join(cdir, "**", "*.rs"), recursive=True)):
        if os.path.relpath(ff, cdir) == "mod.rs":
            continue
        if re.search(r"\.diagnostics\b(?!_)", strip_comments(_read(ff)).replace("pending_diagnostics", "")):
            raise Anchor("a checker touches the diagnostics vector directly: %s" % ff)
    # ---- diagnose_file gates
    ld = strip_comments(_read(os.path.join(ca, "diagnostic/lua_diagnostic.rs")))
    df = fn_body(ld, "diagnose_file", "lua_diagnostic.rs")
    g1 = re.search(r"if\s+!self\.enable\s*\{\s*return\s+None;\s*\}", df)
    g2 = re.search(r"if\s+let\s+Some\(module_info\)\s*=\s*db\.get_module_index\(\)\.get_workspace_id\(file_id\)\s*&&\s*!module_info\.is_main\(\)\s*\{\s*return\s+None;\s*\}", df)
    g3 = df.find("check_file(&mut context, &semantic_model)")
    if not df.strip().endswith("Some(context.get_diagnostics())"):
        raise Anchor("diagnose_file no longer returns context.get_diagnostics()")
    if not g1 or not g2 or g3 < 0 or not (g1.start() < g2.start() < g3):
        raise Anchor("diagnose_file gates changed shape")
    uc = fn_body(ld, "update_config", "lua_diagnostic.rs")
    if "self.enable = emmyrc.diagnostics.enable" not in uc:
        raise Anchor("LuaDiagnostic::update_config no longer reads diagnostics.enable")
    ws = strip_comments(_read(os.path.join(ca, "db_index/module/workspace.rs")))
    m = re.search(r"pub\s+fn\s+is_main\(&self\)\s*->\s*bool\s*\{\s*self\.id\s*==\s*(\d+)\s*\}", ws)
    m2 = re.search(r"pub\s+const\s+MAIN\s*:\s*WorkspaceId\s*=\s*WorkspaceId\s*\{\s*id\s*:\s*(\d+)\s*\}", ws)
    if not m or not m2 or m.group(1) != m2.group(1):
        raise Anchor("WorkspaceId::is_main / MAIN changed shape")
    t["main_id"] = int(m.group(1))
    # ---- undefined-global filter
    ug = strip_comments(_read(os.path.join(ca, "diagnostic/checker/undefined_global.rs")))
    cn = fn_body(ug, "check_name_expr", "undefined_global.rs")
    a = re.search(r"\.global_disable_set\s*\.contains\(name_text\.as_str\(\)\)\s*\{\s*return\s+Some\(\(\)\);", cn)
    b = re.search(r"\.global_disable_glob\s*\.iter\(\)\s*\.any\(\|re\|\s*re\.is_match\(&name_text\)\)\s*\{\s*return\s+Some\(\(\)\);", cn)
    c = cn.find("context.add_diagnostic(")
    if not a or not b or c < 0 or not (a.start() < c and b.start() < c) or cn.count("context.add_diagnostic(") != 1:
        raise Anchor("undefined_global::check_name_expr: globals / globalsRegex filter changed shape")
    # ---- how a file becomes a meta file: analyze_doc_tag_meta + LuaModuleIndex::{set_meta, add_module_by_module_path}
    docs = strip_comments(_read(os.path.join(ca, "compilation/analyzer/decl/docs.rs")), keep_strings=True)
    am = fn_body(docs, "analyze_doc_tag_meta", "decl/docs.rs")
    SET = r"analyzer\s*\.db\s*\.get_module_index_mut\(\)\s*\.set_meta\(file_id\);"
    mi = re.search(r"if\s+let\s+Some\(name_token\)\s*=\s*tag\.get_name_token\(\)\s*\{", am)
    if not mi:
        raise Anchor("analyze_doc_tag_meta: `if let Some(name_token) = tag.get_name_token()` not found")
    head = am[:mi.start()]
    blk_end = balanced(am, mi.end() - 1)
    blk = am[mi.end():blk_end - 1]
    tail = am[blk_end:]
    t["meta_set_first"] = bool(re.search(SET, head))
    if re.search(SET, tail):
        raise Anchor("analyze_doc_tag_meta: set_meta after the name block (shape not understood)")
    mc = re.search(r"if\s+((?:text\s*==\s*\"[^\"]*\"\s*(?:\|\|\s*)?)+)\{", blk)
    if not mc:
        raise Anchor("analyze_doc_tag_meta: the special-name test changed shape")
    t["meta_special"] = re.findall(r'text\s*==\s*"([^"]*)"', mc.group(1))
    sp_end = balanced(blk, mc.end() - 1)
    special_body = blk[mc.end():sp_end - 1]
    me = re.match(r"\s*else\s*\{", blk[sp_end:])
    if not me:
        raise Anchor("analyze_doc_tag_meta: no else branch for named meta files")
    else_start = sp_end + me.end() - 1
    else_body = blk[else_start + 1:balanced(blk, else_start) - 1]
    if blk[balanced(blk, else_start):].strip():
        raise Anchor("analyze_doc_tag_meta: code after the if/else of the name block")
    if re.search(SET, special_body) or "add_module_by_module_path" in special_body:
        raise Anchor("analyze_doc_tag_meta: special-name branch changed shape")
    ia = re.search(r"\.add_module_by_module_path\(file_id,\s*text\.to_string\(\),\s*workspace_id\);", else_body)
    if not ia or not re.search(r"\.get_module\(file_id\)\?\s*\.workspace_id;", else_body[:ia.start()]):
        raise Anchor("analyze_doc_tag_meta: named branch no longer re-registers the module")
    if re.search(SET, else_body[:ia.start()]):
        raise Anchor("analyze_doc_tag_meta: set_meta before add_module_by_module_path in the named branch")
    t["meta_set_after_rename"] = bool(re.search(SET, else_body[ia.end():]))
    mrs = strip_comments(_read(os.path.join(ca, "db_index/module/mod.rs")))
    ab = fn_body(mrs, "add_module_by_module_path", "module/mod.rs")
    mk = re.search(r"ModuleInfo\s*\{[^}]*\bis_meta\s*:\s*(true|false)\b[^}]*\}", ab)
    if not mk or "self.file_module_map.insert(file_id, module_info)" not in ab or mrs.count("is_meta:") != 1:
        raise Anchor("add_module_by_module_path: construction of ModuleInfo changed shape")
    t["reinsert_is_meta"] = mk.group(1) == "true"
    sm = fn_body(mrs, "set_meta", "module/mod.rs")
    im = fn_body(mrs, "is_meta_file", "module/mod.rs")
    if not re.fullmatch(r"\s*if\s+let\s+Some\(module_info\)\s*=\s*self\.file_module_map\.get_mut\(&file_id\)\s*\{\s*module_info\.is_meta\s*=\s*true;\s*\}\s*", sm) \
            or not re.fullmatch(r"\s*if\s+let\s+Some\(module_info\)\s*=\s*self\.file_module_map\.get\(file_id\)\s*\{\s*return\s+module_info\.is_meta;\s*\}\s*false\s*", im):
        raise Anchor("LuaModuleIndex::set_meta / is_meta_file changed shape")
    t["sha"] = hashlib.sha256((code_rs + mod_rs + ld + ug + am + ab).encode()).hexdigest()[:16]
    return t


def cname(v):
    return "C_" + v


def to_coq(t):
    codes, levels = t["codes"], t["levels"]
    o = []
    w = o.append
    w("(** GENERATED by /verif/lib/diag_tables.py from /repo — DO NOT EDIT (regenerated on every run of checks C20/C21).")
    w("    sources: diagnostic/lua_diagnostic_code.rs, diagnostic/checker/mod.rs + every checker's CODES,")
    w("    diagnostic/lua_diagnostic.rs, emmylua_parser/src/kind/lua_language_level.rs; source digest %s *)" % t["sha"])
    w("From Coq Require Import List String NArith Bool.")
    w("Import ListNotations.")
    w("Local Open Scope string_scope.")
    w("")
    w("(** [enum DiagnosticCode] *)")
    w("Inductive code : Set :=\n" + "\n".join("| %s" % cname(c) for c in codes) + ".")
    w("Scheme Equality for code.")
    w("")
    w("(** [DiagnosticCode::all()] *)")
    w("Definition all_codes : list code :=\n  [" + "; ".join(cname(c) for c in codes) + "].")
    w("")
    w("(** [DiagnosticCode::get_name] (to_kebab_case of the variant) *)")
    w("Definition code_name (c : code) : string :=\n  match c with\n" + "\n".join('  | %s => "%s"' % (cname(c), t["names"][c]) for c in codes) + "\n  end.")
    w("")
    w("(** [enum LuaLanguageLevel], ordered by declaration (derive(PartialOrd)) *)")
    w("Inductive level : Set :=\n" + "\n".join("| L_%s" % l for l in levels) + ".")
    w("Definition level_idx (l : level) : N :=\n  match l with\n" + "\n".join("  | L_%s => %d" % (l, i) for i, l in enumerate(levels)) + "\n  end%N.")
    w("Definition all_levels : list level := [" + "; ".join("L_%s" % l for l in levels) + "].")
    w("")
    w("(** [lsp_types::DiagnosticSeverity] *)")
    w("Inductive severity : Set := ERROR | WARNING | INFORMATION | HINT.")
    w("")
    w("(** [get_default_severity] *)")
    w("Definition default_severity (c : code) : severity :=\n  match c with\n" + "\n".join("  | %s => %s" % (cname(c), t["severity"][c]) for c in codes) + "\n  end.")
    w("")
    ops = {">=": "N.leb (level_idx L_%s) (level_idx l)", ">": "N.ltb (level_idx L_%s) (level_idx l)",
           "<=": "N.leb (level_idx l) (level_idx L_%s)", "<": "N.ltb (level_idx l) (level_idx L_%s)",
           "==": "N.eqb (level_idx l) (level_idx L_%s)"}
    arms = []
    for c in codes:
        v = t["enable"][c]
        arms.append("  | %s => %s" % (cname(c), v[1] if v[0] == "const" else ops[v[1]] % v[2]))
    w("(** [is_code_default_enable] *)")
    w("Definition default_enable (c : code) (l : level) : bool :=\n  match c with\n" + "\n".join(arms) + "\n  end.")
    w("")
    w("(** the checkers in the order of [check_file]: name, [CODES], and an over-approximation of the codes the")
    w("    checker's module can pass to [add_diagnostic] (every [DiagnosticCode::X] it mentions) *)")
    w("Record checker_info := { ck_name : string; ck_codes : list code; ck_emits : list code }.")
    w("Definition checkers : list checker_info :=\n  [ " + ";\n    ".join(
        '{| ck_name := "%s"; ck_codes := [%s]; ck_emits := [%s] |}' % (k["name"], "; ".join(cname(c) for c in k["codes"]), "; ".join(cname(c) for c in k["emits"]))
        for k in t["checkers"]) + " ].")
    w("")
    w("(** order of the tests in [DiagnosticContext::is_checker_enable_by_code] before the default *)")
    w("Inductive chain_test : Set := FileEnable | WsDisable | Meta | FileDisable | WsEnable.")
    w("Definition chain_order : list chain_test := [" + "; ".join(t["chain"]) + "].")
    w("")
    w("(** does [DiagnosticContext::get_diagnostics] drop exact duplicates (keeping first occurrences)? *)")
    w("Definition dedup_diagnostics : bool := %s." % ("true" if t["dedup"] else "false"))
    w("")
    w("(** [analyze_doc_tag_meta]: is [set_meta] called before the name test; the names that keep the module path;")
    w("    is [set_meta] called again after [add_module_by_module_path] re-registers a named meta file; and the")
    w("    [is_meta] of the [ModuleInfo] that [add_module_by_module_path] inserts *)")
    w("Definition meta_set_first : bool := %s." % ("true" if t["meta_set_first"] else "false"))
    w("Definition meta_special_names : list string := [%s]." % "; ".join('"%s"' % x for x in t["meta_special"]))
    w("Definition meta_set_after_rename : bool := %s." % ("true" if t["meta_set_after_rename"] else "false"))
    w("Definition reinsert_is_meta : bool := %s." % ("true" if t["reinsert_is_meta"] else "false"))
    w("")
    w("(** [WorkspaceId::MAIN] *)")
    w("Definition main_workspace_id : N := %d%%N." % t["main_id"])
    return "\n".join(o) + "\n"


def regenerate(repo, coq_dir):
    """returns the table dict; writes Gen/C20_Diag.v only when its content changed (keeps make no-op)"""
    t = extract(repo)
    txt = to_coq(t)
    d = os.path.join(coq_dir, "theories", "Gen")
    os.makedirs(d, exist_ok=True)
    p = os.path.join(d, "C20_Diag.v")
    old = open(p, encoding="utf8").read() if os.path.exists(p) else None
    if old != txt:
        with open(p, "w", encoding="utf8") as fh:
            fh.write(txt)
    return t


if __name__ == "__main__":
    import json
    import sys
    tt = regenerate(sys.argv[1] if len(sys.argv) > 1 else "/repo", os.path.join(os.path.dirname(os.path.dirname(os.path.abspath(__file__))), "coq"))
    print(json.dumps({"codes": len(tt["codes"]), "checkers": len(tt["checkers"]), "chain": tt["chain"], "sha": tt["sha"]}))
